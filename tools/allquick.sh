#!/bin/bash
# usage: tools/allquick.sh "<seeds>" [tier] ["<properties>"]   - runs every registered check for each seed; prints one line per run
cd "$(dirname "$0")/.."
tier=${2:-quick}
for s in $1; do
  for p in ${3:-C01 C02 C03 C04 C05 C06 C07 C08 C09 C10 C11 C12 C13 C14 C15 C16 C17 C18 C19 C20}; do
    start=$(date +%s)
    out=$(VERIF_SEED=$s IXV_NO_EVIDENCE=1 /venv/bin/python -m ixv.run $p --tier $tier 2>&1)
    code=$?
    echo "seed=$s $p exit=$code $(( $(date +%s) - start ))s $(echo "$out" | grep -E 'VIOLATION|HARNESS|KNOWN' | head -3 | tr '\n' ' ')"
  done
done
