#!/venv/bin/python
"""Rebase a stored seeded patch that no longer applies to /repo HEAD: the files it touches are taken as they were after applying it
to its recorded base commit (meta.repo_head), and a new patch against the current HEAD is written (the old one is kept as
patch.base-<commit>.diff).  The seeded change then includes reverting whatever HEAD changed in those files since the base."""
import json, os, shutil, subprocess, sys, tempfile
VERIF = os.path.dirname(os.path.dirname(os.path.abspath(__file__)))
for name in sys.argv[1:]:
    d = os.path.join(VERIF, 'seeded', name)
    meta = json.load(open(os.path.join(d, 'meta.json')))
    base = meta['repo_head']
    tmp = tempfile.mkdtemp(prefix='ixv_rebase_')
    try:
        old, new = os.path.join(tmp, 'a'), os.path.join(tmp, 'b')
        for path, rev in ((old, base), (new, 'HEAD')):
            os.makedirs(path)
            subprocess.run(f'git -C /repo archive {rev} | tar -x -C {path}', shell=True, check=True)
        subprocess.run(['git', 'apply', os.path.join(d, 'patch.diff')], cwd=old, check=True)
        files = [l.split(' b/')[1].strip() for l in open(os.path.join(d, 'patch.diff')) if l.startswith('diff --git')]
        head_copy = os.path.join(tmp, 'head')
        shutil.copytree(new, head_copy)
        for f in files:
            shutil.copy(os.path.join(old, f), os.path.join(new, f))
        out = subprocess.run(['git', 'diff', '--no-index', '--src-prefix=a/', '--dst-prefix=b/', 'head', 'b'], cwd=tmp, capture_output=True, text=True).stdout
        out = out.replace('a/head/', 'a/').replace('b/b/', 'b/')
        shutil.copy(os.path.join(d, 'patch.diff'), os.path.join(d, f'patch.base-{base}.diff'))
        open(os.path.join(d, 'patch.diff'), 'w').write(out)
        chk = subprocess.run(['git', 'apply', '--check', os.path.join(d, 'patch.diff')], cwd=head_copy, capture_output=True, text=True)
        print(name, 'rebased onto HEAD:', 'applies' if chk.returncode == 0 else 'STILL FAILS ' + chk.stderr[:200])
    finally:
        shutil.rmtree(tmp, ignore_errors=True)
