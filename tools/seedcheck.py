#!/venv/bin/python
"""Confirm a seeded breaking change and run the checks against it.

  tools/seedcheck.py --prop C08 --name C08_a --patch P.diff --demo D.py [--note N.txt] [--checks C08,C07] [--tier quick]

Steps (all in a scratch copy of /repo's HEAD under $TMPDIR, removed afterwards):
  1. the patch applies (git apply) to a clean export of /repo HEAD
  2. the repository's own test suite still passes with the patch
  3. the demonstration exits 0 on the clean tree and non-zero on the patched tree
  4. each listed check (default: the owning property's) is run with IXV_REPO=<patched tree>; exit 1 = detected
If 1-3 hold the change is stored as /verif/seeded/<name>/{patch.diff, demo.py, meta.json}.
"""
import argparse
import json
import os
import shutil
import subprocess
import sys
import tempfile
import time

VERIF = os.path.dirname(os.path.dirname(os.path.abspath(__file__)))
PY = '/venv/bin/python'


def sh(cmd, cwd=None, env=None, timeout=3600):
    p = subprocess.run(cmd, cwd=cwd, env=env, capture_output=True, text=True, timeout=timeout)
    return p.returncode, (p.stdout + p.stderr)


def main():
    ap = argparse.ArgumentParser()
    ap.add_argument('--prop', required=True)
    ap.add_argument('--name', required=True)
    ap.add_argument('--patch', required=True)
    ap.add_argument('--demo', required=True)
    ap.add_argument('--note')
    ap.add_argument('--checks')
    ap.add_argument('--tier', default='quick')
    ap.add_argument('--source', default='sub-agent given only the property text and a scratch worktree')
    ap.add_argument('--no-store', action='store_true')
    a = ap.parse_args()
    tmp = tempfile.mkdtemp(prefix='ixv_seed_')
    res = {'property': a.prop, 'name': a.name, 'source': a.source}
    try:
        clean = os.path.join(tmp, 'clean')
        bad = os.path.join(tmp, 'patched')
        for d in (clean, bad):
            os.makedirs(d)
            subprocess.run(f'git -C /repo archive HEAD | tar -x -C {d}', shell=True, check=True)
        res['repo_head'] = subprocess.run(['git', '-C', '/repo', 'rev-parse', '--short', 'HEAD'], capture_output=True, text=True).stdout.strip()
        code, out = sh(['git', 'apply', '--verbose', os.path.abspath(a.patch)], cwd=bad)
        # git apply outside a repository needs --unsafe-paths? it works with plain paths relative to cwd
        res['patch_applies'] = code == 0
        if code != 0:
            res['patch_error'] = out[-600:]
            print(json.dumps(res, indent=1))
            return 2
        res['files_changed'] = sorted({l.split()[2].rstrip('.') for l in out.splitlines() if l.startswith('Checking patch')})[:10]
        env_bad = dict(os.environ, PYTHONPATH=bad, PYTHONHASHSEED='0')
        env_clean = dict(os.environ, PYTHONPATH=clean, PYTHONHASHSEED='0')
        code, out = sh([PY, '-m', 'pytest', '-q', '-p', 'no:cacheprovider', 'tests'], cwd=bad, env=env_bad)
        res['tests_pass_with_patch'] = code == 0
        res['tests_tail'] = out.strip().splitlines()[-1] if out.strip() else ''
        demo = os.path.join(tmp, 'demo_under_test.py')   # a copy: the script's own directory is sys.path[0] and must not contain an ixai package
        shutil.copy(os.path.abspath(a.demo), demo)
        c0, o0 = sh([PY, demo], cwd=tmp, env=env_clean)
        c1, o1 = sh([PY, demo], cwd=tmp, env=env_bad)
        res['demo_clean_exit'] = c0
        res['demo_patched_exit'] = c1
        res['demo_patched_tail'] = [l for l in o1.strip().splitlines() if 'WARNING conda' not in l][-3:]
        res['confirmed'] = bool(res['tests_pass_with_patch'] and c0 == 0 and c1 != 0)
        checks = (a.checks or a.prop).split(',')
        det = {}
        for c in checks:
            t0 = time.time()
            env = dict(os.environ, IXV_REPO=bad, IXV_NO_EVIDENCE='1', PYTHONHASHSEED='0')
            code, out = sh([PY, '-m', 'ixv.run', c, '--tier', a.tier], cwd=VERIF, env=env)
            lines = [l for l in out.splitlines() if l.startswith('  ') or 'HARNESS' in l]
            det[c] = {'exit': code, 'detected': code == 1, 'wall_s': round(time.time() - t0, 1), 'first': (lines[0][:400] if lines else '')}
        res['checks'] = det
        res['checks_to_run'] = checks
        res['detected_by'] = [c for c, d in det.items() if d['detected']]
        if a.note and os.path.exists(a.note):
            res['what_it_needs'] = open(a.note).read().strip()
        res['what_was_run'] = ("git apply on an export of /repo HEAD; repository test suite on the patched tree; demo on clean and patched tree; "
                               f"checks {checks} at tier {a.tier} with IXV_REPO=<patched tree>")
        if res['confirmed'] and not a.no_store:
            dst = os.path.join(VERIF, 'seeded', a.name)
            os.makedirs(dst, exist_ok=True)
            shutil.copy(a.patch, os.path.join(dst, 'patch.diff'))
            shutil.copy(a.demo, os.path.join(dst, 'demo.py'))
            with open(os.path.join(dst, 'meta.json'), 'w') as f:
                json.dump(res, f, indent=1)
                f.write('\n')
        print(json.dumps({k: v for k, v in res.items() if k not in ('what_it_needs',)}, indent=1))
        return 0 if res['confirmed'] else 3
    finally:
        shutil.rmtree(tmp, ignore_errors=True)


if __name__ == '__main__':
    sys.exit(main())
