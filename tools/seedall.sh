#!/bin/bash
# usage: tools/seedall.sh C08 [checks]  - confirm + run checks for seeded_A / seeded_B of /tmp/wt_<ID>
cd "$(dirname "$0")/.."
id=$1
for x in ${LETTERS:-A B}; do
  l=$(echo $x | tr 'ABCDEFGHIJKL' 'abcdefghijkl')
  [ -f /tmp/wt_$id/seeded_$x.diff ] || continue
  tools/seedcheck.py --prop $id --name ${id}_$l --patch /tmp/wt_$id/seeded_$x.diff --demo /tmp/wt_$id/seeded_${x}_demo.py --note /tmp/wt_$id/seeded_$x.txt ${2:+--checks $2} 2>&1 | grep -v WARN | /venv/bin/python -c "
import sys,json
try:
    r=json.load(sys.stdin)
except Exception as e:
    print('PARSE-ERROR', e); sys.exit(0)
print(r['name'], 'CONFIRMED' if r.get('confirmed') else 'NOT-CONFIRMED', '| tests:', r.get('tests_tail'), '| demo clean/patched exit:', r.get('demo_clean_exit'), r.get('demo_patched_exit'))
for k,v in r.get('checks',{}).items():
    print('    ', k, 'DETECTED' if v['detected'] else ('MISSED' if v['exit']==0 else 'HARNESS-ERROR'), v['wall_s'], 's', v['first'][:220])
"
done
