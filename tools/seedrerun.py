#!/venv/bin/python
"""Re-run the owning check (quick tier) against every stored seeded change and refresh its meta.json.
   usage: tools/seedrerun.py [name ...]      (default: all of /verif/seeded/*)"""
import json
import os
import subprocess
import sys
import tempfile
from concurrent.futures import ThreadPoolExecutor

VERIF = os.path.dirname(os.path.dirname(os.path.abspath(__file__)))


def one(name):
    d = os.path.join(VERIF, 'seeded', name)
    meta = json.load(open(os.path.join(d, 'meta.json')))
    note = tempfile.NamedTemporaryFile('w', suffix='.txt', delete=False)
    note.write(meta.get('what_it_needs', ''))
    note.close()
    # copies: seedcheck overwrites patch.diff/demo.py in place
    p = tempfile.NamedTemporaryFile(suffix='.diff', delete=False); p.write(open(os.path.join(d, 'patch.diff'), 'rb').read()); p.close()
    q = tempfile.NamedTemporaryFile(suffix='.py', delete=False); q.write(open(os.path.join(d, 'demo.py'), 'rb').read()); q.close()
    checks = ','.join(meta.get('checks_to_run') or [meta['property']])
    r = subprocess.run([os.path.join(VERIF, 'tools', 'seedcheck.py'), '--prop', meta['property'], '--name', name, '--patch', p.name,
                        '--demo', q.name, '--note', note.name, '--checks', checks], capture_output=True, text=True)
    for f in (note.name, p.name, q.name):
        os.unlink(f)
    try:
        out = json.loads(r.stdout[r.stdout.index('{'):])
    except Exception:
        return name, 'ERROR', r.stdout[-300:] + r.stderr[-300:]
    det = out.get('detected_by') or []
    first = next((v.get('first', '') for v in out.get('checks', {}).values() if v.get('detected')), '')
    exits = {k: v.get('exit') for k, v in out.get('checks', {}).items()}
    return name, ('CONFIRMED' if out.get('confirmed') else 'NOT-CONFIRMED') + ' ' + (f'DETECTED by {det}' if det else f'NOT-DETECTED (exits {exits})'), first[:160]


if __name__ == '__main__':
    names = sys.argv[1:] or sorted(os.listdir(os.path.join(VERIF, 'seeded')))
    with ThreadPoolExecutor(6) as ex:
        for name, status, first in ex.map(one, names):
            print(name, status, '|', first)
