"""Exact rational numbers that absorb floats (DESIGN 2.3).

``Q`` is a ``fractions.Fraction`` subclass whose arithmetic with int, float, NumPy scalars and
Fraction stays in ``Q``.  A float *is* a rational, so the conversion is exact.  The library adds
float literals to user numbers (``tracker.get() + 0.``), which would silently turn a plain
Fraction into a float; ``Q`` keeps the whole computation exact so that oracles can use ``==``.
"""
from fractions import Fraction
import math
import numbers

try:
    import numpy as _np
    _NPG = _np.generic
except Exception:  # pragma: no cover
    _np = None
    _NPG = ()


def _lift(x):
    """Return a Fraction for every real scalar, NotImplemented otherwise."""
    if isinstance(x, Fraction):
        return x
    if isinstance(x, bool):
        return Fraction(int(x))
    if isinstance(x, int):
        return Fraction(x)
    if isinstance(x, float):
        if math.isfinite(x):
            return Fraction(x)
        return NotImplemented
    if _NPG and isinstance(x, _NPG):
        v = x.item()
        if isinstance(v, (int, float)) and (not isinstance(v, float) or math.isfinite(v)):
            return Fraction(v)
        return NotImplemented
    return NotImplemented


class Q(Fraction):
    __slots__ = ()

    def __new__(cls, num=0, den=None):
        if den is None:
            if isinstance(num, Q):
                return num
            if isinstance(num, str):
                f = Fraction(num)
            else:
                f = _lift(num)
                if f is NotImplemented:
                    raise TypeError(f"cannot make Q from {num!r}")
            return Fraction.__new__(cls, f.numerator, f.denominator)
        return Fraction.__new__(cls, num, den)

    # -- arithmetic -------------------------------------------------------------------------
    def _wrap(self, f):
        return Fraction.__new__(Q, f.numerator, f.denominator)

    def __add__(a, b):
        b = _lift(b)
        if b is NotImplemented:
            return NotImplemented
        return a._wrap(Fraction.__add__(a, b))

    __radd__ = __add__

    def __sub__(a, b):
        b = _lift(b)
        if b is NotImplemented:
            return NotImplemented
        return a._wrap(Fraction.__sub__(a, b))

    def __rsub__(a, b):
        b = _lift(b)
        if b is NotImplemented:
            return NotImplemented
        return a._wrap(Fraction.__sub__(b, a))

    def __mul__(a, b):
        b = _lift(b)
        if b is NotImplemented:
            return NotImplemented
        return a._wrap(Fraction.__mul__(a, b))

    __rmul__ = __mul__

    def __truediv__(a, b):
        b = _lift(b)
        if b is NotImplemented:
            return NotImplemented
        return a._wrap(Fraction.__truediv__(a, b))

    def __rtruediv__(a, b):
        b = _lift(b)
        if b is NotImplemented:
            return NotImplemented
        return a._wrap(Fraction.__truediv__(b, a))

    def __pow__(a, b, mod=None):
        if isinstance(b, int) and not isinstance(b, bool):
            r = Fraction.__pow__(a, b)
            if isinstance(r, Fraction):
                return a._wrap(r)
            return r
        if isinstance(b, Fraction) and b.denominator == 1:
            return a._wrap(Fraction.__pow__(a, int(b)))
        return float(a) ** float(b)

    def _cmp(a, b, op):
        bb = _lift(b)
        if bb is NotImplemented:
            return NotImplemented
        return op(Fraction(a.numerator, a.denominator), bb)

    def __lt__(a, b):
        return a._cmp(b, lambda x, y: x < y)

    def __le__(a, b):
        return a._cmp(b, lambda x, y: x <= y)

    def __gt__(a, b):
        return a._cmp(b, lambda x, y: x > y)

    def __ge__(a, b):
        return a._cmp(b, lambda x, y: x >= y)

    def __eq__(a, b):
        bb = _lift(b)
        if bb is NotImplemented:
            return Fraction.__eq__(a, b)
        return Fraction.__eq__(a, bb)

    __hash__ = Fraction.__hash__

    def __neg__(a):
        return a._wrap(Fraction.__neg__(a))

    def __pos__(a):
        return a

    def __abs__(a):
        return a._wrap(Fraction.__abs__(a))

    def __repr__(self):
        if self.denominator == 1:
            return f"Q({self.numerator})"
        return f"Q('{self.numerator}/{self.denominator}')"

    # NumPy interplay: the four arithmetic ufuncs stay exact (np.float64(1) + Q(1) -> Q); every other ufunc
    # (np.isclose, np.sqrt, np.abs ...) sees Q operands as Python floats, like any other real number would be
    __array_priority__ = 1000

    def __array_ufunc__(self, ufunc, method, *inputs, **kwargs):
        if method == '__call__' and not kwargs and len(inputs) == 2 and _np is not None:
            a, b = inputs
            op = {_np.add: '__add__', _np.subtract: '__sub__', _np.multiply: '__mul__', _np.true_divide: '__truediv__'}.get(ufunc)
            if op is not None and not isinstance(a, _np.ndarray) and not isinstance(b, _np.ndarray):
                la, lb = _lift(a), _lift(b)
                if la is not NotImplemented and lb is not NotImplemented:
                    return Q(getattr(Fraction, op)(la, lb))
        conv = [float(i) if isinstance(i, Fraction) else i for i in inputs]
        return getattr(ufunc, method)(*conv, **kwargs)

    def __copy__(self):
        return self

    def __deepcopy__(self, memo):
        return self

    def __reduce__(self):
        return (Q, (self.numerator, self.denominator))


def enc(v):
    """JSON encoding of a number (int stays int, float stays float, rationals become 'n/d')."""
    if isinstance(v, bool):
        return v
    if isinstance(v, int):
        return v
    if isinstance(v, Fraction):
        if v.denominator == 1:
            return int(v.numerator)
        return f"{v.numerator}/{v.denominator}"
    if _NPG and isinstance(v, _NPG):
        return enc(v.item())
    if isinstance(v, float):
        return v
    return repr(v)


def dec(v):
    """Inverse of enc for exact mode: everything becomes Q."""
    if isinstance(v, str):
        return Q(v)
    return Q(v)


def is_exact(v):
    return isinstance(v, (int, Fraction)) and not isinstance(v, bool)


def to_float(v):
    if isinstance(v, Fraction):
        return v.numerator / v.denominator
    return float(v)


def qsum(vals):
    s = Q(0)
    for v in vals:
        s = s + v
    return s
