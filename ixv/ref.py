"""Independent references written from the property statements (DESIGN 2.6).  Shares no code with ixai."""
from fractions import Fraction
import itertools
import math

from .exact import Q


# ------------------------------------------------------------------------------------------------
# running statistics (C10, used by C02/C03/C12)
# ------------------------------------------------------------------------------------------------

def mean(vals):
    if not vals:
        return Q(0)
    s = Q(0)
    for v in vals:
        s = s + v
    return s / len(vals)


def pvar(vals):
    if not vals:
        return Q(0)
    m = mean(vals)
    s = Q(0)
    for v in vals:
        s = s + (v - m) * (v - m)
    return s / len(vals)


def smooth(vals, alpha):
    """sum_i alpha (1-alpha)^(n-i) v_i, i = 1..n  (closed form, not the recurrence)."""
    n = len(vals)
    s = Q(0)
    one_minus = Q(1) - alpha
    for i, v in enumerate(vals, start=1):
        s = s + alpha * (one_minus ** (n - i)) * v
    return s


class Stat:
    """The configured running statistic: uniform mean (static) or exponential smoothing from 0 (dynamic)."""

    def __init__(self, dynamic, alpha):
        self.dynamic = dynamic
        self.alpha = alpha
        self.vals = []

    def add(self, v):
        self.vals.append(v)

    def get(self):
        if self.dynamic:
            return smooth(self.vals, self.alpha)
        return mean(self.vals)


class FastStat:
    """Same statistic as Stat, computed from sums so that long prefixes stay cheap.  mean = S/n;
    smoothing: value_n = sum alpha (1-alpha)^(n-i) v_i  is carried as a weighted sum W_n = (1-alpha) W_{n-1} + alpha v_n.
    (The recurrence *is* the definition here; Stat's closed form is cross-checked against it in self_check.)"""

    def __init__(self, dynamic, alpha):
        self.dynamic = dynamic
        self.alpha = alpha
        self.n = 0
        self.s = Q(0)

    def add(self, v):
        self.n += 1
        if self.dynamic:
            self.s = (Q(1) - self.alpha) * self.s + self.alpha * v
        else:
            self.s = self.s + v

    def get(self):
        if self.dynamic:
            return self.s
        if self.n == 0:
            return Q(0)
        return self.s / self.n


class MultiStat:
    """Per-key zero-filling statistic (C12 model): a key's series starts when it first appears; updates that omit
    it contribute 0."""

    def __init__(self, dynamic, alpha, fast=True):
        self.dynamic = dynamic
        self.alpha = alpha
        self.stats = {}
        self.order = []
        self.fast = fast
        self.n = 0

    def add(self, values):
        self.n += 1
        for k, v in values.items():
            if k not in self.stats:
                self.stats[k] = (FastStat if self.fast else Stat)(self.dynamic, self.alpha)
                self.order.append(k)
        for k in self.order:
            self.stats[k].add(values[k] if k in values else 0)

    def get(self):
        return {k: self.stats[k].get() for k in self.order}

    def normalized(self):
        raw = self.get()
        if len(raw) <= 1:
            return raw
        tot = Q(0)
        for v in raw.values():
            tot = tot + v
        if tot == 0:
            return {k: Q(0) for k in raw}
        return {k: v / tot for k, v in raw.items()}


# ------------------------------------------------------------------------------------------------
# helpers shared by explainer references
# ------------------------------------------------------------------------------------------------

def mean_output(outs):
    """Label-wise mean of a list of output dicts; a label missing from an output counts as 0."""
    labels = []
    for o in outs:
        for l in o:
            if l not in labels:
                labels.append(l)
    n = len(outs)
    res = {}
    for l in labels:
        s = Q(0)
        for o in outs:
            if l in o:
                s = s + o[l]
        res[l] = s / n
    return res


def shapley(d, value):
    """Exact Shapley values of a game on features 0..d-1; ``value(frozenset)`` -> number."""
    vals = {}
    for r in range(d + 1):
        for S in itertools.combinations(range(d), r):
            vals[frozenset(S)] = value(frozenset(S))
    out = [Q(0)] * d
    nperm = math.factorial(d)
    for perm in itertools.permutations(range(d)):
        S = frozenset()
        for f in perm:
            S2 = S | {f}
            out[f] = out[f] + (vals[S] - vals[S2])   # SAGE: contribution = loss before - loss after
            S = S2
    return [o / nperm for o in out]


def self_check():
    vals = [Q(3), Q(-1, 2), Q(7, 3), Q(0), Q(5)]
    # closed forms vs brute force definitions on a small stream
    assert mean(vals) == sum(vals, Q(0)) / 5
    m = mean(vals)
    assert pvar(vals) == sum(((v - m) ** 2 for v in vals), Q(0)) / 5
    a = Q(1, 3)
    t = Q(0)
    for v in vals:
        t = (1 - a) * t + a * v
    assert smooth(vals, a) == t
    for dyn in (False, True):
        s1, s2 = Stat(dyn, a), FastStat(dyn, a)
        for v in vals:
            s1.add(v), s2.add(v)
            assert s1.get() == s2.get()
    # Shapley: additive game gives the marginal of each player, efficiency
    w = [Q(2), Q(-3), Q(5)]
    sh = shapley(3, lambda S: -sum((w[i] for i in S), Q(0)))
    assert sh == w, sh
    ms = MultiStat(False, a)
    ms.add({'a': Q(2)}); ms.add({'b': Q(4)}); ms.add({'a': Q(4), 'b': Q(0)})
    assert ms.get() == {'a': Q(2), 'b': Q(2)} and ms.normalized() == {'a': Q(1, 2), 'b': Q(1, 2)}
    assert mean_output([{'x': Q(1)}, {'y': Q(2)}]) == {'x': Q(1, 2), 'y': Q(1)}
