"""Writes /verif/MANIFEST.json from the table below (run: /venv/bin/python -m ixv.mkmanifest)."""
import json
import os

VERIF = os.path.dirname(os.path.dirname(os.path.abspath(__file__)))

PY = "/venv/bin/python"

TABLE = {}


def entry(pid, category, text, note, technique, design_ref):
    TABLE[pid] = dict(category=category, text=text, note=note, technique=technique, design_ref=design_ref)


entry('C10', 'exploration',
      "Generated streams of exact rationals are executed through the shipped update code; mean, population variance and the "
      "smoothed value are exact rationals and must EQUAL independently written closed forms after every update, together "
      "with N, std, linearity and the hull/range consequences. Search, not proof: unexplored streams are not covered.",
      "Trusted: fractions.Fraction arithmetic, Hypothesis generation. Float/NumPy-scalar inputs are compared within a stated "
      "rounding tolerance only.",
      "Hypothesis PBT, exact-rational execution vs closed-form reference, metamorphic linearity", "DESIGN.md 3/C10")


def build():
    checks = []
    na = []
    with open(os.path.join(VERIF, 'properties.jsonl')) as f:
        ids = [json.loads(l)['id'] for l in f if l.strip()]
    for pid in ids:
        have = os.path.exists(os.path.join(VERIF, 'ixv', 'props', pid.lower() + '.py'))
        if pid in TABLE and have:
            t = TABLE[pid]
            checks.append({
                'property_id': pid,
                'quick_cmd': f"{PY} -m ixv.run {pid} --tier quick",
                'thorough_cmd': f"{PY} -m ixv.run {pid} --tier thorough",
                'evidence_file': f"/verif/evidence/{pid}.json",
                'replay_cmd_template': f"{PY} -m ixv.run {pid} --replay {{path}}",
                'engine': 'ixv',
                'level_claimed': {'category': t['category'], 'text': t['text'], 'design_ref': t['design_ref']},
                'level_note': t['note'],
                'technique': t['technique'],
            })
        else:
            na.append({'property_id': pid,
                       'reason': "not claimed yet: the generated check for this property is still being built "
                                 "(the technique applies; see DESIGN.md section 3)"})
    man = {
        'version': 1,
        'setup_cmd': ("/venv/bin/pip install --no-index --find-links /opt/veriftools/wheels "
                      "--target /verif/.deps jsonschema >/dev/null 2>&1 || true; "
                      "/venv/bin/python -c \"import hypothesis, numpy, scipy\""),
        'hooks': {
            'guard': 'IXAI_VERIF',
            'enable': "no source hooks are needed: every property is observed through public extension points "
                      "(model/loss callables, BaseImputer/BaseStorage subclasses); checks import /repo's working tree directly",
            'baseline_off_cmd': "cd /repo && /venv/bin/python -m pytest -ra -q -p no:cacheprovider --timeout=900 "
                                "--continue-on-collection-errors",
            'source_commits': [],
            'add_only': True,
        },
        'engines': [{
            'name': 'ixv',
            'path': '/verif/ixv',
            'serves_properties': [c['property_id'] for c in checks],
            'kind_free_text': "Hypothesis property-based testing (structured generators, rule-based state machines, "
                              "scripted/enumerated randomness, exact-rational oracles, exact-binomial distribution tests)",
        }],
        'checks': checks,
        'not_applicable': na,
        'notes': "All checks: cwd /verif, honour VERIF_SEED, re-exec with PYTHONHASHSEED=0, import ixai from /repo's "
                 "working tree (IXV_REPO overrides for scratch copies), exit 2 on harness errors.",
    }
    with open(os.path.join(VERIF, 'MANIFEST.json'), 'w') as f:
        json.dump(man, f, indent=1)
        f.write('\n')
    return man


if __name__ == '__main__':
    m = build()
    print(f"{len(m['checks'])} checks, {len(m['not_applicable'])} not claimed")
