"""Deciding distributional claims without flaking (DESIGN 2.7): exact binomial tails, Bonferroni, two stages."""
import math

from scipy.stats import binom

DELTA1 = 1e-9   # stage 1 (per sub-check, after Bonferroni over its cells)
DELTA2 = 1e-6   # independent confirmation stage


def binom_two_sided(k, n, p):
    """Exact two-sided tail probability of observing a count at least as extreme as k under Binomial(n, p)."""
    if p <= 0.0:
        return 1.0 if k == 0 else 0.0
    if p >= 1.0:
        return 1.0 if k == n else 0.0
    lo = binom.cdf(k, n, p)
    hi = binom.sf(k - 1, n, p)
    return min(1.0, 2.0 * min(lo, hi))


def cells_pvalue(counts, probs, n):
    """counts, probs: dicts over the same cells (missing count = 0).  Returns (Bonferroni-adjusted min p, worst cell,
    observed frequency, expected probability).  A cell observed although its probability is 0 gives p = 0."""
    worst = (1.0, None, None, None)
    cells = set(probs) | set(counts)
    m = len(cells)
    for c in cells:
        k = counts.get(c, 0)
        p = float(probs.get(c, 0.0))
        pv = binom_two_sided(k, n, p)
        if pv < worst[0]:
            worst = (pv, c, k / n, p)
    return min(1.0, worst[0] * m), worst[1], worst[2], worst[3]


def min_detectable(n, p, cells, delta=DELTA1):
    """Approximate absolute deviation of a cell probability that stage 1 would flag (normal approximation, for the evidence)."""
    from scipy.stats import norm
    z = norm.isf(delta / (2 * max(cells, 1)))
    return z * math.sqrt(max(p * (1 - p), 1e-12) / n)


def hoeffding_bound(n, value_range, delta=DELTA1):
    """|mean - E| <= bound with probability >= 1 - delta (two-sided Hoeffding)."""
    return value_range * math.sqrt(math.log(2.0 / delta) / (2.0 * n))


class TwoStage:
    """sample(N, stage) -> (counts, N);  probs fixed.  Alarm only if stage 1 AND the independent stage 2 both reject."""

    def __init__(self, name, probs):
        self.name = name
        self.probs = probs

    def decide(self, sample, n1):
        counts = sample(n1, 1)
        p1, cell, freq, exp = cells_pvalue(counts, self.probs, n1)
        info = {'N': n1, 'cells': len(self.probs), 'stage1_p': p1}
        if p1 >= DELTA1:
            return True, info
        counts2 = sample(4 * n1, 2)
        p2, cell2, freq2, exp2 = cells_pvalue(counts2, self.probs, 4 * n1)
        info.update({'stage2_p': p2, 'cell': repr(cell2), 'observed': freq2, 'expected': exp2, 'stage1_cell': repr(cell),
                     'stage1_observed': freq, 'stage1_expected': exp})
        if p2 < DELTA2:
            return False, info
        return True, info
