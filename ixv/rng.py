"""Owning the library's randomness (DESIGN 2.4).

Level 1  seeded(a, b)        -- random.seed / np.random.seed
Level 2  Scripted            -- every primitive draw of the ``random`` module comes from a list in the case
Level 3  ChoicePoints        -- every primitive draw is a choice point of known arity; ``enumerate_runs``
                                re-runs a function once per leaf of the choice tree and yields the exact
                                leaf probability.
"""
import contextlib
import itertools
import random as _random
from fractions import Fraction

import numpy as np

_PATCHED = ['random', 'randrange', 'randint', 'choice', 'choices', 'shuffle', 'sample', 'uniform',
            'getrandbits', 'randbytes', 'triangular', 'gauss', 'normalvariate', 'expovariate',
            'betavariate', 'gammavariate', 'lognormvariate', 'paretovariate', 'vonmisesvariate',
            'weibullvariate', 'binomialvariate', 'seed', 'getstate', 'setstate']


@contextlib.contextmanager
def seeded(a, b):
    """Seed both global generators; restore nothing (each case seeds for itself)."""
    _random.seed(a)
    np.random.seed(b % (2 ** 32))
    yield


@contextlib.contextmanager
def patched_random(inst):
    """Temporarily replace every public function of the ``random`` module by the bound methods of ``inst``."""
    saved = {}
    for name in _PATCHED:
        if hasattr(_random, name) and hasattr(inst, name):
            saved[name] = getattr(_random, name)
            setattr(_random, name, getattr(inst, name))
    try:
        yield inst
    finally:
        for name, f in saved.items():
            setattr(_random, name, f)


class Scripted(_random.Random):
    """random.Random whose primitive draws come from ``script`` (ints in [0, 2**53)).

    random()      -> script[i] / 2**53   (so 0 -> 0.0 and 2**53-1 -> 1-2**-53, the two extremes)
    _randbelow(n) -> script[i] % n
    The script is cycled when exhausted (deterministic).  ``log`` records every draw.
    """

    def __init__(self, script):
        super().__init__(0)
        self.script = list(script) or [0]
        self.pos = 0
        self.log = []

    def _next(self):
        v = self.script[self.pos % len(self.script)]
        self.pos += 1
        return v

    def random(self):
        v = self._next() / 9007199254740992.0
        self.log.append(('u', v))
        return v

    def _randbelow(self, n):
        v = self._next() % n
        self.log.append(('i', n, v))
        return v

    def getrandbits(self, k):
        v = self._next() % (1 << k)
        self.log.append(('b', k, v))
        return v

    def seed(self, *a, **k):  # the library never seeds; ignore
        return None


class _Exhausted(Exception):
    pass


class ChoicePoints(_random.Random):
    """Random source driven by an explicit path through the choice tree.

    Every draw is a choice point of known arity:
      _randbelow(n)                 arity n, probability 1/n each
      random()                      arity m (grid), returns (i + 1/2)/m          [only sound for thresholds on the grid]
      permutation(names) (NumPy)    arity d!, all orders
    ``path`` is a list of chosen indices; draws beyond the path choose 0 and are appended.
    """

    def __init__(self, path, grid=None):
        super().__init__(0)
        self.prefix = list(path)
        self.taken = []   # (choice, arity)
        self.grid = grid

    def _choose(self, arity):
        i = len(self.taken)
        c = self.prefix[i] if i < len(self.prefix) else 0
        assert 0 <= c < arity, "choice tree is not deterministic given the path"
        self.taken.append((c, arity))
        return c

    def _randbelow(self, n):
        return self._choose(n)

    def random(self):
        if self.grid is None:
            raise NotEnumerable("random() consulted without a grid")
        return (self._choose(self.grid) + 0.5) / self.grid

    def getrandbits(self, k):
        if k > 12:
            raise NotEnumerable("getrandbits too wide")
        return self._choose(1 << k)

    def seed(self, *a, **k):
        return None

    # NumPy replacement (same result type as np.random.permutation: an array built from the argument)
    def permutation(self, x):
        arr = np.arange(x) if isinstance(x, (int, np.integer)) else np.array(x)
        d = len(arr)
        nperm = 1
        for i in range(2, d + 1):
            nperm *= i
        c = self._choose(nperm)
        return arr[_nth_permutation(d, c)]

    def probability(self):
        p = Fraction(1)
        for _, a in self.taken:
            p /= a
        return p


def _nth_permutation(d, n):
    items = list(range(d))
    out = []
    f = 1
    for i in range(2, d):
        f *= i
    # factorial number system
    for i in range(d - 1, 0, -1):
        q, n = divmod(n, f)
        out.append(items.pop(q))
        f //= i
    out.append(items.pop(0))
    return out


class NotEnumerable(Exception):
    pass


@contextlib.contextmanager
def patched_np_permutation(func):
    saved = np.random.permutation
    np.random.permutation = func
    try:
        yield
    finally:
        np.random.permutation = saved


def enumerate_runs(fn, grid=None, max_leaves=200000, early=False):
    """Run ``fn()`` once per leaf of its choice tree.  Yields (probability, result, path).

    ``fn`` must be deterministic given the choices.  Soundness guard: the state of the real global
    generators is snapshotted; if ``fn`` consumed draws from an un-intercepted source NotEnumerable is raised.
    """
    path = []
    leaves = 0
    while True:
        cp = ChoicePoints(path, grid=grid)
        st_py = _random.getstate()
        st_np = np.random.get_state()
        with patched_random(cp), patched_np_permutation(cp.permutation):
            result = fn()
        if _random.getstate() != st_py:
            raise NotEnumerable("python global generator consulted behind the patch")
        st_np2 = np.random.get_state()
        if not (st_np[0] == st_np2[0] and (st_np[1] == st_np2[1]).all() and st_np[2:] == st_np2[2:]):
            raise NotEnumerable("NumPy global generator consulted (only permutation is intercepted)")
        if early and leaves == 0:
            # uniform choice trees (a fixed number of draws per run): the product of the arities along the first path IS the number of
            # leaves - give up before enumerating a tree that is too large rather than after max_leaves executions
            est = 1
            for _c, arity in cp.taken:
                est *= arity
            if est > max_leaves:
                raise NotEnumerable(f"about {est} leaves (> {max_leaves})")
        yield cp.probability(), result, [c for c, _ in cp.taken]
        leaves += 1
        if leaves > max_leaves:
            raise NotEnumerable(f"more than {max_leaves} leaves")
        # odometer: advance the last choice point that can still advance
        taken = cp.taken
        i = len(taken) - 1
        while i >= 0 and taken[i][0] + 1 >= taken[i][1]:
            i -= 1
        if i < 0:
            return
        path = [c for c, _ in taken[:i]] + [taken[i][0] + 1]


def self_check():
    # permutations: all distinct
    for d in range(1, 5):
        n = 1
        for i in range(2, d + 1):
            n *= i
        perms = {tuple(_nth_permutation(d, k)) for k in range(n)}
        assert len(perms) == n, "nth_permutation broken"
    # enumeration: two dice
    tot = Fraction(0)
    hist = {}
    for p, r, _ in enumerate_runs(lambda: _random.randrange(3) + _random.randint(0, 1)):
        tot += p
        hist[r] = hist.get(r, 0) + p
    assert tot == 1 and hist == {0: Fraction(1, 6), 1: Fraction(1, 3), 2: Fraction(1, 3), 3: Fraction(1, 6)}
    # the patch is undone
    assert _random.random.__self__.__class__ is _random.Random
