"""Shared Hypothesis strategies.  Cases are JSON values: ints, floats, 'n/d' strings, lists, dicts."""
from hypothesis import strategies as st

small_int = st.integers(-9, 9)
pos_small = st.integers(1, 9)


@st.composite
def rational(draw, num=st.integers(-50, 50), den=st.integers(1, 12)):
    n = draw(num)
    d = draw(den)
    if d == 1 or n % d == 0:
        return n // d if n % d == 0 else n
    return f"{n}/{d}"


def finite_float(mag=1e6):
    return st.floats(min_value=-mag, max_value=mag, allow_nan=False, allow_infinity=False, width=64)


def exact_number():
    """ints, rationals and floats (floats are exact rationals for the oracle)."""
    return st.one_of(st.integers(-20, 20), rational(), finite_float(1e3),
                     st.integers(-10 ** 9, 10 ** 9), st.sampled_from([0, 1, -1, 0.5, 1e-3, 1e6, -1e6, 0.1]))


@st.composite
def alpha01(draw, closed_zero=True):
    """alpha in [0,1] (or (0,1]) as a JSON rational."""
    k = draw(st.sampled_from(['1', '1/2', '1/3', '1/10', '1/1000', 'r', 'r', '0' if closed_zero else '1/7']))
    if k != 'r':
        return k
    d = draw(st.integers(2, 40))
    n = draw(st.integers(1, d))
    return f"{n}/{d}" if n != d else '1'


seed32 = st.integers(0, 2 ** 32 - 1)
script = st.lists(st.integers(0, 2 ** 53 - 1), min_size=1, max_size=48)
