"""Context, counters, Hypothesis drivers, evidence writing (DESIGN 2.1, 2.2, 2.8, 2.9)."""
import collections
import hashlib
import json
import os
import sys
import time
import traceback

VERIF = os.path.dirname(os.path.dirname(os.path.abspath(__file__)))
REPO = os.environ.get('IXV_REPO', '/repo')


class HarnessError(Exception):
    """Something is wrong with the machinery itself (exit 2, never a violation)."""


class Result:
    __slots__ = ('ok', 'nontrivial', 'labels', 'detail', 'key')

    def __init__(self, ok=True, nontrivial=False, labels=(), detail=None, key=None):
        self.ok = ok
        self.nontrivial = nontrivial
        self.labels = list(labels)
        self.detail = detail
        self.key = key


def canon(case):
    return json.dumps(case, sort_keys=True, separators=(',', ':'), default=repr)


def digest(case):
    return hashlib.sha256(canon(case).encode()).hexdigest()[:20]


class _Violation(Exception):
    def __init__(self, key, detail):
        super().__init__(f"{key}: {detail}")
        self.key = key
        self.detail = detail


def load_known():
    path = os.path.join(VERIF, 'known_findings.json')
    if not os.path.exists(path):
        return []
    with open(path) as f:
        return json.load(f).get('findings', [])


class Ctx:
    def __init__(self, prop, tier, seed, shard=0, nshards=1):
        self.prop = prop
        self.tier = tier
        self.base_seed = seed
        self.shard = shard
        self.nshards = nshards
        self.evaluations = 0
        self.nontrivial = set()
        self.labels = collections.Counter()
        self.samples = []
        self.sample_cap = 5
        self.violations = []          # dicts: sub, key, detail, case
        self.known_seen = collections.Counter()
        self.known_open = {f['key']: f for f in load_known()
                           if f.get('property') == prop and f.get('status') == 'open'}
        self.extra = {}               # free-form coverage keys
        self.assumptions = []
        self.rule = ''
        self.inconclusive = False
        self._last_fail = None
        self.t0 = time.time()

    # -- seeds ------------------------------------------------------------------------------
    def seed_for(self, name):
        h = hashlib.sha256(f"{self.base_seed}:{self.shard}:{name}".encode()).digest()
        return int.from_bytes(h[:8], 'big')

    def thorough(self):
        return self.tier == 'thorough'

    def n(self, quick, thorough):
        """Case budget: quick count, or the thorough total divided over the shards."""
        scale = float(os.environ.get('IXV_BUDGET', '1') or 1)      # < 1 in the additional pass under `python -O`
        if self.tier == 'quick':
            return max(1, int(quick * scale))
        return max(1, int(thorough * scale) // self.nshards)

    # -- recording --------------------------------------------------------------------------
    def record(self, sub, case, res, sample=True):
        self.evaluations += 1
        for lab in res.labels:
            self.labels[f"{sub}:{lab}"] += 1
        if res.nontrivial:
            d = digest([sub, case])
            if d not in self.nontrivial:
                self.nontrivial.add(d)
                if sample and len(self.samples) < self.sample_cap and self._sample_ok(sub):
                    self.samples.append({'sub': sub, 'case': _shorten(case)})

    def _sample_ok(self, sub):
        # at most two samples per sub-check so that every sub-check is represented
        return sum(1 for s in self.samples if s['sub'] == sub) < 2

    def count(self, n=1, label=None):
        self.evaluations += n
        if label:
            self.labels[label] += n

    def add_nontrivial(self, sub, obj, sample=None):
        d = digest([sub, obj])
        if d not in self.nontrivial:
            self.nontrivial.add(d)
            if sample is not None and len(self.samples) < self.sample_cap and self._sample_ok(sub):
                self.samples.append({'sub': sub, 'case': _shorten(sample)})

    def label(self, lab, n=1):
        self.labels[lab] += n

    # -- failures ---------------------------------------------------------------------------
    def is_known(self, key):
        return key is not None and key in self.known_open

    def violation(self, sub, key, detail, case):
        """Register a failure.  Returns True if it is a new (unlisted) violation."""
        if self.is_known(key):
            self.known_seen[key] += 1
            return False
        self.violations.append({'sub': sub, 'key': key, 'detail': detail, 'case': case})
        return True

    # -- hypothesis drivers -----------------------------------------------------------------
    def search(self, sub, strategy, run_case, max_examples, shrink=True):
        """Run ``run_case`` over generated cases.  Stops at the first *unlisted* violation (shrunk)."""
        import hypothesis
        from hypothesis import given, settings, seed, Phase, HealthCheck
        phases = [Phase.generate] + ([Phase.shrink] if shrink else [])
        holder = {'last': None}
        ctx = self

        @seed(self.seed_for(sub))
        @settings(max_examples=max_examples, database=None, deadline=None, derandomize=False,
                  report_multiple_bugs=False, phases=phases, print_blob=False,
                  suppress_health_check=[HealthCheck.too_slow, HealthCheck.data_too_large,
                                         HealthCheck.large_base_example])
        @given(strategy)
        def test(case):
            res = run_case(case)
            ctx.record(sub, case, res)
            if not res.ok:
                if ctx.is_known(res.key):
                    ctx.known_seen[res.key] += 1
                    return
                holder['last'] = (case, res)
                raise _Violation(res.key, res.detail)

        try:
            test()
        except _Violation:
            case, res = holder['last']
            self.violations.append({'sub': sub, 'key': res.key, 'detail': res.detail, 'case': case})
            return False
        except hypothesis.errors.Flaky as e:
            # the oracle failed once and passed when Hypothesis re-executed the same case: the code under test leaked state between
            # executions (e.g. a module- or class-level cache).  The first failure is real and is reported as such.
            if holder['last'] is None:
                raise HarnessError(f"{sub}: run_case is not a pure function of the case: {e!r}") from e
            case, res = holder['last']
            self.violations.append({'sub': sub, 'key': res.key, 'case': case,
                                    'detail': str(res.detail) + ' [did not fail again on immediate re-execution: state leaks between executions]'})
            return False
        except hypothesis.errors.FailedHealthCheck as e:
            raise HarnessError(f"{sub}: generator health check failed: {e}") from e
        except hypothesis.errors.Unsatisfiable as e:
            raise HarnessError(f"{sub}: generator unsatisfiable: {e}") from e
        return True

    def machine_search(self, sub, machine_cls, max_examples, steps, shrink=True):
        """Run a RuleBasedStateMachine class.  The machine must expose ``self.ops`` (JSON list) and call
        ``self.ctx_fail(key, detail)`` (provided by MachineBase) on an oracle mismatch."""
        import hypothesis
        from hypothesis import settings, seed, Phase, HealthCheck
        from hypothesis.stateful import run_state_machine_as_test
        phases = [Phase.generate] + ([Phase.shrink] if shrink else [])
        holder = {'last': None}
        machine_cls._ctx = self
        machine_cls._sub = sub
        machine_cls._holder = holder
        st = settings(max_examples=max_examples, stateful_step_count=steps, database=None, deadline=None,
                      derandomize=False, report_multiple_bugs=False, phases=phases, print_blob=False,
                      suppress_health_check=[HealthCheck.too_slow, HealthCheck.data_too_large,
                                             HealthCheck.large_base_example, HealthCheck.filter_too_much])
        try:
            run_state_machine_as_test(seed(self.seed_for(sub))(machine_cls), settings=st)
        except _Violation:
            case, key, detail = holder['last']
            self.violations.append({'sub': sub, 'key': key, 'detail': detail, 'case': case})
            return False
        except hypothesis.errors.Flaky as e:
            if holder['last'] is None:
                raise HarnessError(f"{sub}: machine is not deterministic: {e!r}") from e
            case, key, detail = holder['last']
            self.violations.append({'sub': sub, 'key': key, 'case': case,
                                    'detail': str(detail) + ' [did not fail again on immediate re-execution: state leaks between executions]'})
            return False
        except hypothesis.errors.FailedHealthCheck as e:
            raise HarnessError(f"{sub}: machine health check failed: {e}") from e
        return True


def _shorten(case, limit=1800):
    s = canon(case)
    if len(s) <= limit:
        return case
    return {'truncated_json': s[:limit] + '...', 'full_length': len(s)}


# ------------------------------------------------------------------------------------------------
# evidence
# ------------------------------------------------------------------------------------------------

def validate_evidence(ev):
    """Validate against /root/.vp/EVIDENCE.schema.json when jsonschema is importable, and always against the
    hand-written core rules (so that a sandbox without jsonschema still refuses malformed evidence)."""
    req = ['property_id', 'tier', 'seed', 'level', 'coverage', 'wall_s']
    for k in req:
        if k not in ev:
            raise HarnessError(f"evidence lacks {k}")
    cov = ev['coverage']
    if ev['level'] in ('exploration', 'fault_enumeration'):
        if not (isinstance(cov.get('evaluations'), int) and cov['evaluations'] >= 1):
            raise HarnessError("evidence: evaluations < 1")
        if not (isinstance(cov.get('distinct_nontrivial'), int) and cov['distinct_nontrivial'] >= 2):
            raise HarnessError(f"evidence: distinct_nontrivial < 2 ({cov.get('distinct_nontrivial')})")
        if not (isinstance(cov.get('samples'), list) and len(cov['samples']) >= 1):
            raise HarnessError("evidence: no samples")
        if not isinstance(cov.get('rule'), str):
            raise HarnessError("evidence: no rule")
    schema_path = '/root/.vp/EVIDENCE.schema.json'
    try:
        import jsonschema  # noqa
    except Exception:
        return 'core-rules-only'
    if os.path.exists(schema_path):
        with open(schema_path) as f:
            schema = json.load(f)
        try:
            jsonschema.validate(ev, schema)
        except jsonschema.ValidationError as e:
            raise HarnessError(f"evidence does not validate: {e.message}") from e
        return 'jsonschema'
    return 'core-rules-only'


def write_evidence(prop, tier, seed, level, merged, wall, strict=True):
    cov = {
        'evaluations': merged['evaluations'],
        'distinct_nontrivial': merged['distinct_nontrivial'],
        'rule': merged['rule'],
        'samples': merged['samples'],
        'labels': dict(sorted(merged['labels'].items())),
        'exhaustive': False,
        'known_findings_reobserved': merged['known_seen'],
        'inconclusive_budget': merged['inconclusive'],
        'shards': merged['nshards'],
    }
    cov.update(merged['extra'])
    ev = {
        'property_id': prop,
        'tier': tier,
        'seed': seed,
        'level': level,
        'coverage': cov,
        'assumptions': merged['assumptions'],
        'wall_s': round(wall, 3),
        'violations': merged['n_violations'],
    }
    try:
        how = validate_evidence(json.loads(json.dumps(ev, default=repr)))
    except HarnessError as e:
        if strict:
            raise
        how = f'NOT VALID (run ended early at a violation): {e}'
    ev['coverage']['evidence_validated_with'] = how
    if os.environ.get('IXV_NO_EVIDENCE'):
        return '(evidence not written: IXV_NO_EVIDENCE)'
    os.makedirs(os.path.join(VERIF, 'evidence'), exist_ok=True)
    path = os.path.join(VERIF, 'evidence', f'{prop}.json')
    tmp = path + '.tmp'
    with open(tmp, 'w') as f:
        json.dump(ev, f, indent=1, default=repr, sort_keys=False)
        f.write('\n')
    os.replace(tmp, path)
    return path


def save_replay(prop, v):
    d = os.path.join(VERIF, 'replays', prop)
    os.makedirs(d, exist_ok=True)
    body = {'property': prop, 'sub': v['sub'], 'key': v['key'], 'detail': v['detail'], 'case': v['case']}
    if sys.flags.optimize:
        body['python_flags'] = 'O'
    name = digest(body) + '.json'
    path = os.path.join(d, name)
    with open(path, 'w') as f:
        json.dump(body, f, indent=1, default=repr)
        f.write('\n')
    return path


def format_exc():
    return traceback.format_exc()


def machine_base():
    """Base class for rule-based machines (imported lazily so that core does not need hypothesis at import time)."""
    from hypothesis.stateful import RuleBasedStateMachine

    class MachineBase(RuleBasedStateMachine):
        _ctx = None
        _sub = None
        _holder = None

        def fail(self, key, detail, case):
            if self._ctx.is_known(key):
                self._ctx.known_seen[key] += 1
                return
            self._holder['last'] = (case, key, detail)
            raise _Violation(key, detail)

        def done(self, case, res):
            self._ctx.record(self._sub, case, res)

    return MachineBase
