"""Configuration generator and builder for the explainer properties (DESIGN section 3, 'Config')."""
from hypothesis import strategies as st

from . import gen
from .doubles import Model, Loss, Faults, Log, recording_imputer, recording_storage_class, num
from .exact import Q

STR_NAMES = ['a', 'b', 'c', 'd', 'e']
INT_NAMES = [0, 1, 2, 3, 4, 7, -2]
FLT_NAMES = [0.5, 1.5, 2.5, -1.25, 3.75]
LABELS = ['output', 0, 1, 'c', 2]


@st.composite
def names_st(draw, d, kinds=('str', 'int', 'float', 'int+float', 'mixed')):
    kind = draw(st.sampled_from(kinds))
    pool = {'str': STR_NAMES, 'int': INT_NAMES, 'float': FLT_NAMES, 'int+float': INT_NAMES + FLT_NAMES,
            'mixed': STR_NAMES + INT_NAMES + FLT_NAMES}[kind]
    names = draw(st.lists(st.sampled_from(pool), min_size=d, max_size=d, unique=True))
    return names


@st.composite
def model_st(draw, d, multi=True, allow_ignore=True, options=False):
    nout = draw(st.sampled_from([1, 1, 1, 2, 3])) if multi else 1
    labels = ['output'] if nout == 1 and draw(st.booleans()) else draw(
        st.lists(st.sampled_from(LABELS), min_size=nout, max_size=nout, unique=True))
    ignore = set()
    if allow_ignore and d >= 2 and draw(st.integers(0, 3)) == 0:
        ignore = set(draw(st.lists(st.integers(0, d - 1), min_size=1, max_size=d - 1, unique=True)))
    outs = []
    for i, lab in enumerate(labels):
        w = [0 if f in ignore else draw(st.integers(-3, 3)) for f in range(d)]
        pair = None
        live = [f for f in range(d) if f not in ignore]
        if len(live) >= 2 and draw(st.booleans()):
            a, b = draw(st.lists(st.sampled_from(live), min_size=2, max_size=2, unique=True))
            pair = [a, b, draw(st.integers(-2, 2))]
        gate = None
        if i > 0 and live and draw(st.booleans()):
            gate = [draw(st.sampled_from(live)), draw(st.integers(-2, 2))]
        outs.append({'label': lab, 'b': draw(st.integers(-3, 3)), 'w': w, 'pair': pair, 'gate': gate})
    spec = {'outs': outs}
    if options:
        k = draw(st.integers(0, 9))
        if k == 0:
            spec['positional'] = True        # order-sensitive model (array-based model behind a wrapper without feature names)
        elif k == 1:
            spec['opt'] = [draw(st.integers(1, 3))]   # reads an optional key that only some observations carry
        elif k == 3:
            spec['memo'] = True              # memoising model: equal inputs get the same prediction OBJECT back
        elif k == 2:
            spec['array_out'] = True         # float mode: output values are size-one NumPy arrays (numeric, but mutable objects)
        if len(outs) > 1 and draw(st.booleans()):
            spec['rank_order'] = True        # key order of the output dict depends on the input
        if draw(st.integers(0, 5)) == 0:
            spec['out_scale'] = draw(st.sampled_from([[1, -11], [3, -14], [1, 6], [7, -30]]))
    return spec


@st.composite
def loss_st(draw):
    kind = draw(st.sampled_from(['sq', 'abs', 'poly', 'poly', 'lin', '01']))      # '01': a bool-valued zero-one loss
    c = [draw(st.integers(-3, 3)) for _ in range(4)]
    return {'kind': kind, 'c': c}


@st.composite
def storage_st(draw, kinds=('uniform', 'geometric', 'interval', 'sequence', 'batch')):
    c = draw(st.sampled_from(kinds))
    s = {'cls': c, 'k': draw(st.integers(1, 4))}
    if c == 'geometric':
        s['p'] = draw(st.sampled_from([None, 1, 0.5, 0.25, 0]))
    return s


@st.composite
def imputer_st(draw, d):
    k = draw(st.sampled_from(['joint', 'product', 'default', 'joint']))
    if k == 'default':
        return {'kind': 'default', 'values': [draw(st.integers(-3, 3)) for _ in range(d)]}
    return {'kind': 'marginal', 'strategy': k}


def value_st():
    return st.one_of(st.integers(-3, 3), st.integers(-3, 3), gen.rational(num=st.integers(-9, 9), den=st.integers(1, 3)))


@st.composite
def stream_st(draw, d, tmin, tmax, per_call=True, variants=False):
    t = draw(st.integers(tmin, tmax))
    rows = []
    for i in range(t):
        row = {'x': [draw(value_st()) for _ in range(d)], 'y': draw(st.integers(-3, 3))}
        if per_call:
            row['n_inner'] = draw(st.sampled_from([None, None, 1, 2, 3]))
            row['upd'] = True if i == 0 else draw(st.sampled_from([True, True, True, False]))
        if variants:
            row['perm'] = draw(st.sampled_from([0, 0, 0, 1, 2, 3]))       # key order of the observation dict
            if draw(st.integers(0, 2)) == 0:
                row['opt'] = draw(st.integers(-3, 3))                      # this observation carries the optional key 'opt0'
        rows.append(row)
    return rows


@st.composite
def config_st(draw, dmax=5, tmin=2, tmax=12, modes=('exact', 'float'), multi=True, storages=None, name_kinds=None,
              lbib=True, extra=True, offsets=True, variants=True):
    d = draw(st.integers(1, dmax))
    n_extra = draw(st.sampled_from([0, 0, 0, 1, 2])) if extra else 0
    dt = d + n_extra
    loss = draw(loss_st())
    if offsets and draw(st.integers(0, 3)) == 0:
        loss['offset'] = draw(st.sampled_from([1000, -1000000, 1000000]))
    cfg = {
        'd': d,
        'extra': [f'zz{i}' for i in range(n_extra)],
        'names': draw(names_st(d, name_kinds) if name_kinds else names_st(d)),
        'dynamic': draw(st.booleans()),
        'alpha': draw(gen.alpha01(closed_zero=False)),
        'n_inner': draw(st.integers(1, 3)),
        'storage': draw(storage_st(storages) if storages else storage_st()),
        'imputer': draw(imputer_st(d)),
        'model': draw(model_st(dt, multi=multi, options=variants)),
        'loss': loss,
        'lbib': draw(st.booleans()) if lbib else False,
        'seeds': [draw(gen.seed32), draw(gen.seed32)],
        'mode': draw(st.sampled_from(modes)),
        'stream': draw(stream_st(dt, tmin, tmax, variants=variants)),
    }
    if cfg['loss'].get('kind') == '01' and cfg['mode'] != 'exact':
        # a discontinuous loss: the float twin of a model output may fall on the other side of the threshold, so only exact runs are compared
        if 'exact' in modes:
            cfg['mode'] = 'exact'
        else:
            cfg['loss']['kind'] = 'abs'
    if variants:
        # observations stored through the public update_storage() BEFORE the first explain_one (pre-filled / shared storage)
        cfg['prefill'] = draw(st.sampled_from([0, 0, 0, 1, 2]))
        if cfg['prefill'] and cfg['stream'] and draw(st.booleans()):
            cfg['stream'][0]['upd'] = False      # the storage is fed by hand / by someone else: even the first call does not store
        cfg['defaults_container'] = draw(st.sampled_from(['dict', 'dict', 'defaultdict', 'missing']))
        cfg['observer'] = draw(st.integers(0, 4)) == 0      # a model callback that reads the explainer's estimates while it is being called
        cfg['omit_defaults'] = draw(st.booleans())     # arguments equal to their documented default are omitted instead of spelled out
        if draw(st.integers(0, 7)) == 0:
            cfg['alpha'] = draw(st.sampled_from(['1/10000000000', '1/1000000']))     # very small but legal smoothing parameter
    return cfg


def defaults_container(defaults, kind):
    """The configured defaults as a plain dict, or as legal dict subclasses that compute values on demand."""
    import collections
    if kind == 'defaultdict' and defaults:
        # the most common default value is produced by the factory, only the others are stored
        vals = list(defaults.values())
        common = max(vals, key=vals.count)
        dd = collections.defaultdict(lambda: common)
        for k, v in defaults.items():
            if v != common:
                dd[k] = v
        return dd
    if kind == 'missing':
        class OnDemand(dict):
            def __missing__(self, key):
                return defaults[key]
        return OnDemand()
    return dict(defaults)


def all_names(cfg):
    return list(cfg['names']) + list(cfg.get('extra') or [])


class Harness:
    """Everything built from a config: doubles, storage, imputer (recording), explainer factory."""

    def __init__(self, cfg, faults=False, record_imputer=True, storage_override=None):
        from ixai.storage import (BatchStorage, IntervalStorage, SequenceStorage, UniformReservoirStorage,
                                  GeometricReservoirStorage)
        from ixai.imputer import MarginalImputer, DefaultImputer
        self.cfg = cfg
        self.mode = cfg['mode']
        # everything built here is a pure function of the case: storages draw from the global generator when constructed
        import random as _random
        import numpy as _np
        _random.seed(cfg['seeds'][0])
        _np.random.seed(cfg['seeds'][1] % (2 ** 32))
        self.names = list(cfg['names'])
        self.all_names = all_names(cfg)     # explained names + features the model reads but that are not explained
        self.log = Log()
        self.faults = Faults() if faults else None
        self.model = Model(cfg['model'], self.all_names, self.mode, log=self.log, faults=self.faults)
        self.loss = Loss(cfg['loss'], self.mode, log=self.log, faults=self.faults)
        s = cfg['storage']
        base = {'batch': BatchStorage, 'interval': IntervalStorage, 'sequence': SequenceStorage,
                'uniform': UniformReservoirStorage, 'geometric': GeometricReservoirStorage}[s['cls']]
        Rec = recording_storage_class(base)
        if s['cls'] == 'batch':
            self.storage = Rec(store_targets=s.get('st', True))
        elif s['cls'] == 'sequence':
            self.storage = Rec(store_targets=s.get('st', True))
        elif s['cls'] == 'geometric':
            self.storage = Rec(size=s['k'], store_targets=s.get('st', False), constant_probability=s.get('p'))
        else:
            self.storage = Rec(size=s['k'], store_targets=s.get('st', False))
        self.storage._log = self.log
        self.storage._faults = self.faults
        im = cfg['imputer']
        if im['kind'] == 'default':
            self.defaults = {n: num(v, self.mode) for n, v in zip(self.names, im['values'])}
            inner = DefaultImputer(self.model, defaults_container(self.defaults, cfg.get('defaults_container', 'dict')))
        else:
            self.defaults = None
            inner = MarginalImputer(self.model, im['strategy'], self.storage)
        self.inner_imputer = inner
        self.imputer = recording_imputer(inner, log=self.log, faults=self.faults) if record_imputer else inner
        self.alpha = Q(cfg['alpha']) if self.mode == 'exact' else float(Q(cfg['alpha']))

    def row(self, r):
        items = [(n, num(v, self.mode)) for n, v in zip(self.all_names, r['x'])]
        p = r.get('perm') or 0
        if p and len(items) > 1:
            items = list(reversed(items)) if p % 2 else items[p // 2 % len(items):] + items[:p // 2 % len(items)]
        x = dict(items)
        if r.get('opt') is not None and self.cfg['model'].get('opt'):
            x['opt0'] = num(r['opt'], self.mode)
        y = num(r['y'], self.mode)
        return x, y

    def prefill(self, ex):
        """Store cfg['prefill'] synthetic observations through the public update_storage() before the stream starts."""
        rows = []
        for j in range(self.cfg.get('prefill') or 0):
            x, y = self.row({'x': [(-1) ** j * (j + 2) + i for i in range(len(self.all_names))], 'y': j})
            ex.update_storage(x, y)
            rows.append((x, y))
        return rows

    def names_arg(self):
        """The feature-name list handed to the explainer.  When the model reads exactly the explained features it is the SAME list object
        the model uses (a user typically builds one list and passes it everywhere): reordering it in place would change the model."""
        if not self.cfg.get('extra') and not self.cfg['model'].get('positional'):
            return self.model.names
        return list(self.names)

    def _kw(self, **kw):
        """Constructor keywords.  Where the configuration says so, every argument whose value EQUALS its documented default
        (n_inner_samples=1, dynamic_setting=True, loss_bigger_is_better=False) is left out - README-style construction: spelling a
        default out and omitting it must give the same explainer."""
        if self.cfg.get('omit_defaults'):
            documented = {'n_inner_samples': 1, 'dynamic_setting': True, 'loss_bigger_is_better': False}
            kw = {k: v for k, v in kw.items() if not (k in documented and type(v) is type(documented[k]) and v == documented[k])}
        return kw

    def _watch(self, ex):
        if self.cfg.get('observer'):
            self.model.watched = ex        # the model callback reads ex.importance_values / ex.variances during every evaluation
        return ex

    def pfi(self):
        from ixai.explainer import IncrementalPFI
        c = self.cfg
        return self._watch(self._pfi())

    def _pfi(self):
        from ixai.explainer import IncrementalPFI
        c = self.cfg
        return IncrementalPFI(self.model, self.loss, self.names_arg(), storage=self.storage, imputer=self.imputer, smoothing_alpha=self.alpha,
                              **self._kw(n_inner_samples=c['n_inner'], dynamic_setting=c['dynamic']))

    def sage(self):
        return self._watch(self._sage())

    def _sage(self):
        from ixai.explainer.sage import IncrementalSage
        c = self.cfg
        if c.get('library_defaults'):
            # default storage (reservoir of 100) and default imputer (marginal joint) created by the explainer itself
            return IncrementalSage(self.model, self.loss, self.names_arg(), smoothing_alpha=self.alpha,
                                   **self._kw(n_inner_samples=c['n_inner'], dynamic_setting=c['dynamic'], loss_bigger_is_better=c['lbib']))
        return IncrementalSage(self.model, self.loss, self.names_arg(), storage=self.storage, imputer=self.imputer, smoothing_alpha=self.alpha,
                               **self._kw(n_inner_samples=c['n_inner'], dynamic_setting=c['dynamic'], loss_bigger_is_better=c['lbib']))
