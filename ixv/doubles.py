"""Test doubles built from JSON specs, all through public extension points (DESIGN 2.5)."""
import copy

from .exact import Q


class Injected(Exception):
    """The fault raised by the doubles."""


def _marked(base):
    return type('Injected' + base.__name__, (base,), {'_ixv_injected': True})


# the injected fault comes as several exception classes: user callbacks fail with all sorts of exceptions, and some classes have a
# meaning of their own for Python's machinery (StopIteration ends iteration protocols, KeyError/TypeError are caught by lookups)
FAULT_CLASSES = [Injected, _marked(StopIteration), _marked(KeyError), _marked(ZeroDivisionError), _marked(ValueError),
                 _marked(AttributeError), _marked(IndexError), _marked(KeyboardInterrupt), _marked(GeneratorExit)]
Injected._ixv_injected = True


def is_injected(e):
    return bool(getattr(e, '_ixv_injected', False))


class Faults:
    """Counts callbacks; raises an injected fault at the armed ordinal (1-based) within the current window."""

    def __init__(self):
        self.count = 0
        self.armed = None      # ordinal within the window at which to raise
        self.kinds = []        # kind of each callback in the window
        self.raised = None
        self.exc_class = Injected

    def reset_window(self, armed=None):
        self.count = 0
        self.kinds = []
        self.armed = armed
        self.raised = None

    def tick(self, kind):
        self.count += 1
        self.kinds.append(kind)
        if self.armed is not None and self.count == self.armed:
            self.armed = None
            self.raised = self.exc_class(f"injected at callback {self.count} ({kind})")
            raise self.raised


class Log:
    def __init__(self):
        self.events = []

    def add(self, *ev):
        self.events.append(ev)

    def mark(self):
        return len(self.events)

    def since(self, mark, kind=None):
        evs = self.events[mark:]
        if kind:
            evs = [e for e in evs if e[0] == kind]
        return evs


def num(v, mode):
    """Decode a JSON number for the given arithmetic mode.  Every call returns a fresh object (provenance by identity)."""
    if mode == 'exact':
        q = Q(v)
        return Q.__new__(Q, q.numerator, q.denominator)
    if isinstance(v, str):
        q = Q(v)
        return q.numerator / q.denominator
    return float(v) + 0.0


class Model:
    """Deterministic model from a spec:
         {'outs': [{'label': L, 'b': int, 'w': [int]*d, 'pair': [i, j, c] | None, 'gate': [i, thr] | None}, ...]}
    Output label L is present iff gate is None or x[names[i]] > thr (label sets depend on the input).  Accepts a dict or a
    sequence of dicts.  Records inputs (shallow copies), identities of the values, outputs."""

    def __init__(self, spec, names, mode, log=None, faults=None, record=True):
        self.spec = spec
        self.names = list(names)
        self.mode = mode
        self.log = log
        self.faults = faults
        self.record = record
        self.calls = []       # (input copy, {name: id(value)}, output)
        self.batch_calls = []  # lists passed
        self.zero = Q(0) if mode == 'exact' else 0.0

    def pure(self, x):
        """Optional spec keys: 'positional' (features are read by POSITION in the dict, like an array-based model behind a wrapper
        without feature names), 'opt' = [weight] for an optional unexplained key 'opt0' that only some observations carry (read with
        x.get), 'rank_order' (output labels listed by descending value, so the key order of the output dict depends on the input),
        'out_scale' = [num, den-exponent] -> outputs multiplied by num * 10**exp (tiny / huge magnitudes)."""
        out = {}
        spec = self.spec
        if spec.get('positional'):
            vals = list(x.values())
            get = lambda i: vals[i] if i < len(vals) else self.zero   # noqa: E731
        else:
            get = lambda i: x[self.names[i]]                          # noqa: E731
        mag = 0.0
        for o in spec['outs']:
            g = o.get('gate')
            if g is not None and not (get(g[0]) > g[1]):
                continue
            v = self.zero + o['b']
            m = abs(o['b'])
            for i, wi in enumerate(o['w']):
                if wi and i < len(self.names):
                    t = wi * get(i)
                    v = v + t
                    m += abs(float(t))
            p = o.get('pair')
            if p is not None:
                t = p[2] * get(p[0]) * get(p[1])
                v = v + t
                m += abs(float(t))
            out[_label(o['label'])] = v
            mag = max(mag, m)
        self.term_scale = max(getattr(self, 'term_scale', 0.0), mag)   # size of the terms an output is summed from (cancellation)
        if spec.get('opt') and not spec.get('positional'):
            first = _label(spec['outs'][0]['label'])
            out[first] = out[first] + spec['opt'][0] * x.get('opt0', 0)
        sc = spec.get('out_scale')
        if sc:
            f = Q(sc[0]) * Q(10) ** sc[1] if self.mode == 'exact' else float(sc[0]) * 10.0 ** sc[1]
            out = {k: v * f for k, v in out.items()}
        if spec.get('rank_order') and len(out) > 1:
            out = dict(sorted(out.items(), key=lambda kv: (-kv[1], repr(kv[0]))))
        return out

    def __deepcopy__(self, memo):
        return self        # like a plain function, the user's model is not duplicated when an explainer is deep-copied

    def reads(self):
        """Indices of the features the model depends on."""
        r = set()
        for o in self.spec['outs']:
            for i, wi in enumerate(o['w']):
                if wi:
                    r.add(i)
            if o.get('pair') and o['pair'][2]:
                r.add(o['pair'][0]), r.add(o['pair'][1])
            if o.get('gate') is not None:
                r.add(o['gate'][0])
        return r

    def nonlinear(self):
        return any(o.get('pair') and o['pair'][2] for o in self.spec['outs'])

    def __call__(self, x):
        if isinstance(x, dict):
            if self.faults is not None:
                self.faults.tick('model')
            watched = getattr(self, 'watched', None)
            if watched is not None:
                # a monitoring hook: the model callback READS the explainer's public estimates while explain_one is running
                self.watched_reads = getattr(self, 'watched_reads', 0) + 1
                for attr in ('importance_values', 'variances'):
                    try:
                        dict(getattr(watched, attr))
                    except Exception:
                        pass
            if self.spec.get('memo'):
                # a memoising / lookup-table model: equal inputs get THE SAME prediction object back (a deterministic model may do that)
                key = tuple(sorted(((repr(k), repr(v)) for k, v in x.items())))
                cache = self.__dict__.setdefault('_memo', {})
                if key not in cache:
                    cache[key] = self.pure(x)
                out = cache[key]
                fresh = self.pure(x)
                if out != fresh:
                    # the library modified a prediction it was given: make that visible as a plainly wrong model output
                    self.memo_corrupted = True
            else:
                out = self.pure(x)
            if self.spec.get('array_out') and self.mode == 'float':
                # size-one NumPy arrays as output values (an un-indexed predict()): numeric, but MUTABLE objects
                import numpy as _np
                out = {k: _np.array([v]) for k, v in out.items()}
            if self.record:
                self.calls.append((dict(x), {k: id(v) for k, v in x.items()}, out))
            if self.log is not None:
                self.log.add('model', dict(x), out)
            if getattr(self, 'mutate_input', False):
                # a model function that works in place on the dict it is given (renames a key), as some pipelines do
                first = next(iter(x), None)
                if first is not None:
                    x['__renamed__'] = x.pop(first)
            return out
        rows = list(x)
        if self.faults is not None:
            self.faults.tick('model')
        outs = [self.pure(r) for r in rows]
        if self.record:
            self.batch_calls.append([dict(r) for r in rows])
        if self.log is not None:
            self.log.add('model_batch', len(rows), outs)
        return outs


def _label(l):
    if isinstance(l, list):
        return tuple(l)
    return l


class Loss:
    """Loss from a spec, declared positional-only: the documented signature is loss_function(y_true, y_pred).
         {'kind': 'sq'|'abs'|'poly'|'lin', 'c': [a, b, c, e]}
    Sums over the labels of the prediction dict in a canonical order (so the value does not depend on dict order)."""

    def __init__(self, spec, mode, log=None, faults=None):
        self.spec = spec
        self.mode = mode
        self.log = log
        self.faults = faults
        self.calls = []
        self.maxabs = 0.0
        self.scale = 1.0
        self.zero = Q(0) if mode == 'exact' else 0.0

    def pure(self, y, pred):
        kind = self.spec['kind']
        c = self.spec.get('c', [0, 1, 1, 1])
        if kind == '01':
            # the natural zero-one loss: a Python BOOL (bool - bool is an int; np.diff / np.subtract on bool arrays is not subtraction)
            s = self.zero
            for l in sorted(pred, key=repr):
                p = pred[l]
                if hasattr(p, 'reshape') and getattr(p, 'size', 0) == 1:
                    p = p.reshape(-1)[0]
                s = s + p
            return bool(s > y)
        tot = self.zero
        for l in sorted(pred, key=repr):
            p = pred[l]
            if hasattr(p, 'reshape') and getattr(p, 'size', 0) == 1:
                p = p.reshape(-1)[0]
            if kind == 'sq':
                tot = tot + (p - y) * (p - y)
            elif kind == 'abs':
                tot = tot + abs(p - y)
            elif kind == 'lin':
                tot = tot + c[1] * p
            else:  # poly: sign-indefinite, nonlinear
                tot = tot + c[1] * p + c[2] * p * p + c[3] * y * p
        if kind in ('poly', 'lin'):
            tot = tot + c[0] * y
        off = self.spec.get('offset')
        if off:
            tot = tot + off
        return tot

    def nonlinear(self):
        return self.spec['kind'] in ('sq', 'abs', '01') or (self.spec['kind'] == 'poly' and self.spec['c'][2] != 0)

    def __deepcopy__(self, memo):
        return self        # user callbacks are shared, not copied

    def __call__(self, y_true, y_pred, /):
        if self.faults is not None:
            self.faults.tick('loss')
        v = self.pure(y_true, y_pred)
        self.calls.append((y_true, dict(y_pred), v))
        a = abs(_f(v))
        if a > self.maxabs:
            self.maxabs = a
        ps = [abs(_f(p)) for p in y_pred.values()] or [0.0]
        cm = max([abs(x) for x in self.spec.get('c', [0, 1, 1, 1])] + [1])
        m = max(ps) + abs(float(y_true)) + 1.0
        sc = max(len(ps) * cm * m * m * 4, 4.0 * abs(self.spec.get('offset') or 0))
        if sc > self.scale:
            self.scale = sc
        if self.log is not None:
            self.log.add('loss', y_true, dict(y_pred), v)
        return v


def _f(v):
    """float() of a number or of a size-one array."""
    if hasattr(v, 'reshape') and getattr(v, 'size', 0) == 1:
        return float(v.reshape(-1)[0])
    return float(v)


def recording_imputer(delegate, log=None, faults=None):
    """A BaseImputer subclass delegating to a real library imputer and recording (subset, n_samples, predictions)."""
    from ixai.imputer.base import BaseImputer
    # a user-defined imputer built the usual way: by SUBCLASSING the library imputer and overriding the documented impute() hook
    base = type(delegate) if isinstance(delegate, BaseImputer) else BaseImputer

    class RecordingImputer(base):
        def __init__(self, inner):
            self.__dict__.update(getattr(inner, '__dict__', {}))      # same public attributes as the imputer it extends
            self.inner = inner
            self.calls = []

        def impute(self, feature_subset, x_i, n_samples=None):
            if faults is not None:
                faults.tick('imputer-before')
            snap = list(feature_subset)
            kw = {} if n_samples is None else {'n_samples': n_samples}
            preds = self.inner.impute(feature_subset, x_i, **kw)
            self.calls.append((snap, type(feature_subset).__name__, n_samples, preds, dict(x_i)))
            if log is not None:
                log.add('impute', snap, n_samples, preds)
            if faults is not None:
                faults.tick('imputer-after')
            return preds

    return RecordingImputer(delegate)


_REC_CACHE = {}


def recording_storage_class(cls):
    """Subclass of a library storage class whose update() is logged and can fail (before touching the storage)."""
    if cls in _REC_CACHE:
        return _REC_CACHE[cls]

    class Rec(cls):
        _log = None
        _faults = None

        def update(self, x, y=None):
            if self._faults is not None:
                self._faults.tick('storage')
            if self._log is not None:
                self._log.add('storage', x, y)
            return super().update(x, y)

    Rec.__name__ = 'Recording' + cls.__name__
    _REC_CACHE[cls] = Rec
    return Rec
