"""ixv - property-based verification machinery for HammerLabML/iXAI (see /verif/DESIGN.md)."""
