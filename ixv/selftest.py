"""Sensitivity / soundness self-test (development tool, DESIGN 2.10).

  /venv/bin/python -m ixv.selftest [--props C10,C07] [--with-tests] [--jobs 8] [--only NAME]

Every *mutant* (textual patch of a scratch copy of /repo) must make the owning check's quick tier exit 1;
every *equivalent refactor* must leave it at exit 0.  With --with-tests the repository's 36-test baseline is
also run on each mutant (a mutant that fails the baseline is reported as 'not-a-valid-mutant').
Scratch copies live under $TMPDIR and are removed immediately.
"""
import argparse
import json
import os
import shutil
import subprocess
import sys
import tempfile
import time
from concurrent.futures import ThreadPoolExecutor

VERIF = os.path.dirname(os.path.dirname(os.path.abspath(__file__)))
REPO = '/repo'

from .selftest_catalog import CATALOG


def _apply(root, edits):
    for rel, old, new in edits:
        p = os.path.join(root, rel)
        s = open(p).read()
        if s.count(old) != 1:
            raise RuntimeError(f"{rel}: pattern occurs {s.count(old)} times: {old[:60]!r}")
        open(p, 'w').write(s.replace(old, new))


def run_one(item, with_tests=False, tier='quick'):
    prop, name, kind, edits = item
    tmp = tempfile.mkdtemp(prefix='ixv_mut_')
    t0 = time.time()
    try:
        dst = os.path.join(tmp, 'repo')
        shutil.copytree(REPO, dst, ignore=shutil.ignore_patterns('.git', '__pycache__', 'docs', 'examples', '*.egg-info'))
        try:
            _apply(dst, edits)
        except RuntimeError as e:
            return dict(prop=prop, name=name, kind=kind, status='patch-does-not-apply', detail=[str(e)])
        env = dict(os.environ, IXV_REPO=dst, PYTHONHASHSEED='0', IXV_NO_EVIDENCE='1')
        p = subprocess.run([sys.executable, '-m', 'ixv.run', prop, '--tier', tier], cwd=VERIF, env=env,
                           capture_output=True, text=True)
        code = p.returncode
        tests = None
        if with_tests:
            q = subprocess.run([sys.executable, '-m', 'pytest', '-q', '-x', '-p', 'no:cacheprovider',
                                '--deselect', 'tests/test_wrappers.py::test_sklearn_wrapper', 'tests'],
                               cwd=dst, env=dict(os.environ, PYTHONPATH=dst), capture_output=True, text=True)
            tests = q.returncode == 0
        want = 1 if kind == 'mutant' else 0
        status = 'ok' if code == want else ('MISSED' if kind == 'mutant' else 'FALSE-ALARM')
        if code == 2:
            status = 'HARNESS-ERROR'
        if with_tests and kind == 'mutant' and tests is False:
            status += '+not-a-valid-mutant(tests fail)'
        viol = [l for l in p.stdout.splitlines() if l.startswith('  ') or 'HARNESS' in l][:3]
        return dict(prop=prop, name=name, kind=kind, status=status, exit=code, tests_pass=tests,
                    wall=round(time.time() - t0, 1), detail=viol if code != want or kind == 'mutant' else [])
    finally:
        shutil.rmtree(tmp, ignore_errors=True)


def main():
    ap = argparse.ArgumentParser()
    ap.add_argument('--props')
    ap.add_argument('--only')
    ap.add_argument('--with-tests', action='store_true')
    ap.add_argument('--jobs', type=int, default=8)
    ap.add_argument('--write', action='store_true', help='write selftest_results.json')
    a = ap.parse_args()
    items = CATALOG
    if a.props:
        want = set(a.props.upper().split(','))
        items = [i for i in items if i[0] in want]
    if a.only:
        items = [i for i in items if a.only in i[1]]
    with ThreadPoolExecutor(a.jobs) as ex:
        results = list(ex.map(lambda it: run_one(it, a.with_tests), items))
    bad = 0
    for r in results:
        flag = '' if r['status'] == 'ok' else '   <<<<<<'
        print(f"{r['prop']} {r['kind']:10s} {r['name']:45s} {r['status']} ({r.get('wall')}s){flag}")
        if r['status'] != 'ok':
            bad += 1
            for d in r.get('detail') or []:
                print('      ', d[:300])
    if a.write:
        with open(os.path.join(VERIF, 'selftest_results.json'), 'w') as f:
            json.dump(results, f, indent=1)
            f.write('\n')
    print(f"{len(results)} entries, {bad} not ok")
    sys.exit(1 if bad else 0)


if __name__ == '__main__':
    main()
