"""Independent references for the incremental explainers (C01-C03, C15-C17, C20).  Always exact: float inputs are
lifted to rationals, so the reference is 'the exact-arithmetic result computed from the same inputs'."""
import math
from fractions import Fraction

import numpy as np

from .exact import Q
from .doubles import Model, Loss
from . import ref

EPS = 2.0 ** -52


def lift(v):
    if isinstance(v, Q):
        return v
    if isinstance(v, np.ndarray) and v.size == 1:
        v = v.reshape(-1)[0]
    if isinstance(v, (np.generic,)):
        v = v.item()
    return Q(v)


def lift_dict(d):
    return {k: lift(v) for k, v in d.items()}


def norm_key(k):
    """NumPy scalar keys that equal the names are accepted (C15); normalise for dict comparison."""
    if isinstance(k, np.generic):
        return k.item()
    return k


class Cmp:
    """Comparison rule of DESIGN 2.3: exact when the arithmetic stayed exact, rounding tolerance otherwise."""

    def __init__(self, mode):
        self.mode = mode
        self.exact_agreements = 0
        self.exactness_lost = 0

    def num(self, got, want, tol):
        if isinstance(got, (int, Fraction)) and not isinstance(got, bool) and got == want:
            self.exact_agreements += 1
            return True
        try:
            if isinstance(got, np.ndarray) and got.size == 1:
                got = got.reshape(-1)[0]
            g = float(got)
        except Exception:
            return False
        if not math.isfinite(g):
            return False
        if self.mode == 'exact':
            self.exactness_lost += 1
        return abs(g - float(want)) <= tol

    def dict(self, got, want, tol):
        """Returns None if equal, else a description."""
        if not isinstance(got, dict):
            return f'not a dict: {got!r}'
        g = {norm_key(k): v for k, v in got.items()}
        if len(g) != len(got):
            return f'keys collide after normalisation: {list(got)!r}'
        if set(g) != set(want):
            return f'keys {sorted(map(repr, g))} != expected {sorted(map(repr, want))}'
        for k in want:
            if not self.num(g[k], want[k], tol):
                return f'key {k!r}: got {g[k]!r}, reference {want[k]!r} (tol {tol:g})'
        return None


class ExactLoss:
    """The loss spec evaluated in exact arithmetic; tracks the largest sum of absolute terms (for float tolerances)."""

    def __init__(self, spec):
        self.inner = Loss(spec, 'exact')
        self.scale = 1.0

    def __call__(self, y, pred):
        v = self.inner.pure(y, pred)
        ps = [abs(float(p)) for p in pred.values()] or [0.0]
        c = [abs(x) for x in self.inner.spec.get('c', [0, 1, 1, 1])] + [1]
        m = max(ps) + abs(float(y)) + 1.0
        self.scale = max(self.scale, len(ps) * max(c) * m * m * 4, 4.0 * abs(self.inner.spec.get('offset') or 0))
        return v


class SageRef:
    """Reference for IncrementalSage: consumes the imputer calls recorded during one explain_one."""

    def __init__(self, cfg):
        self.names = list(cfg['names'])
        self.d = len(self.names)
        dyn, alpha = cfg['dynamic'], Q(cfg['alpha'])
        self.model = Model(cfg['model'], list(cfg['names']) + list(cfg.get('extra') or []), 'exact', record=False)
        self.loss = ExactLoss(cfg['loss'])
        self.offset = Q(1) if cfg.get('lbib') else Q(0)
        self.model_loss = ref.FastStat(dyn, alpha)
        self.marg_loss = ref.FastStat(dyn, alpha)
        self.mp = ref.MultiStat(dyn, alpha)
        self.imp = ref.MultiStat(dyn, alpha)
        self.var = ref.MultiStat(dyn, alpha)
        self.marginal_prediction = {}
        self.explained = 0
        self.orders = set()
        self.last_contrib = None
        self.ill_conditioned = False

    def step(self, x, y, imputer_calls, n_inner):
        """Returns an error description or None; updates the reference state."""
        xq, yq = lift_dict(x), lift(y)
        pred = self.model.pure(xq)
        self.model_loss.add(self.loss(yq, pred))
        self.mp.add(pred)
        self.marginal_prediction = self.mp.normalized()
        raw = self.mp.get()
        if len(raw) > 1:
            tot = abs(float(sum(raw.values(), Q(0))))
            sabs = float(sum((abs(v) for v in raw.values()), Q(0)))
            # ... or a sum that is tiny compared with the terms the model outputs are summed from (float rounding can turn it into
            # an exact zero, which the library - correctly - treats differently from a tiny non-zero sum)
            if tot <= 1e-6 * max(sabs, getattr(self.model, 'term_scale', 0.0)):
                # normalising by a (near-)zero sum: exact arithmetic is decided, floats are not comparable here
                self.ill_conditioned = True
        L = self.loss(yq, self.marginal_prediction)
        self.marg_loss.add(L)
        if len(imputer_calls) != self.d:
            return 'chain-length', f'{len(imputer_calls)} imputer calls for {self.d} features'
        remaining = list(self.names)
        order = []
        contrib = {}
        for k, (subset, _typ, n_samples, preds, x_seen) in enumerate(imputer_calls, start=1):
            sub = [norm_key(s) for s in subset]
            if len(set(sub)) != len(sub) or not set(sub) <= set(remaining) or len(sub) != self.d - k:
                return 'subset-not-complement', (f'step {k}: imputer asked for {sub!r}; expected the names not yet '
                                                 f'revealed: a subset of {remaining!r} of size {self.d - k}')
            revealed = [n for n in remaining if n not in sub]
            if len(revealed) != 1:
                return 'subset-not-nested', f'step {k}: {len(revealed)} features revealed at once'
            if n_samples != n_inner:
                return 'n-inner', f'step {k}: imputer asked for {n_samples} samples, configured {n_inner}'
            if x_seen != x:
                return 'instance', f'step {k}: imputer received another instance than x_i'
            if len(preds) != n_inner:
                return 'imputer-count', f'imputer returned {len(preds)} predictions'
            f = revealed[0]
            order.append(f)
            remaining = [n for n in remaining if n != f]
            Lk = self.loss(yq, ref.mean_output([lift_dict(p) for p in preds]))
            contrib[f] = L - Lk
            L = Lk
        self.orders.add(tuple(map(repr, order)))
        self.imp.add(contrib)
        upd = self.imp.get()
        self.var.add({f: (contrib[f] - upd[f]) ** 2 for f in self.names})
        self.explained += 1
        self.last_contrib = contrib
        return None

    def expected(self):
        return {
            'importance_values': self.imp.get(),
            'variances': self.var.get(),
            'marginal_loss': self.marg_loss.get() + self.offset,
            'model_loss': self.model_loss.get() + self.offset,
            'marginal_prediction': dict(self.marginal_prediction),
        }


class PfiRef:
    def __init__(self, cfg):
        self.names = list(cfg['names'])
        self.d = len(self.names)
        dyn, alpha = cfg['dynamic'], Q(cfg['alpha'])
        self.model = Model(cfg['model'], list(cfg['names']) + list(cfg.get('extra') or []), 'exact', record=False)
        self.loss = ExactLoss(cfg['loss'])
        self.imp = ref.MultiStat(dyn, alpha)
        self.var = ref.MultiStat(dyn, alpha)
        self.explained = 0
        self.last_contrib = None

    def step(self, x, y, imputer_calls, n_inner):
        xq, yq = lift_dict(x), lift(y)
        orig = self.loss(yq, self.model.pure(xq))
        if len(imputer_calls) != self.d:
            return 'imputer-calls', f'{len(imputer_calls)} imputer calls for {self.d} features'
        asked = []
        contrib = {}
        for subset, _typ, n_samples, preds, x_seen in imputer_calls:
            sub = [norm_key(s) for s in subset]
            if len(sub) != 1 or sub[0] not in self.names:
                return 'subset-not-single', f'imputer asked for {sub!r}; PFI replaces exactly one feature'
            if n_samples != n_inner:
                return 'n-inner', f'imputer asked for {n_samples} samples, configured {n_inner}'
            if x_seen != x:
                return 'instance', 'imputer received another instance than x_i'
            if len(preds) != n_inner:
                return 'imputer-count', f'imputer returned {len(preds)} predictions'
            asked.append(sub[0])
            losses = [self.loss(yq, lift_dict(p)) for p in preds]
            contrib[sub[0]] = ref.mean(losses) - orig
        if sorted(map(repr, asked)) != sorted(map(repr, self.names)):
            return 'features-once', f'features asked {asked!r}, expected each of {self.names!r} once'
        self.imp.add(contrib)
        upd = self.imp.get()
        self.var.add({f: (contrib[f] - upd[f]) ** 2 for f in self.names})
        self.explained += 1
        self.last_contrib = contrib
        return None

    def expected(self):
        return {'importance_values': self.imp.get(), 'variances': self.var.get()}
