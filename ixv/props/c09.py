"""C09 - GeometricReservoirStorage follows its recency-weighted inclusion law (DESIGN 3, C09)."""
import random
from fractions import Fraction

from hypothesis import strategies as st

from ..core import Result
from .. import gen, rng, stats

LEVEL = 'exploration'
RULE = ("(a) EXACT by choice-point enumeration: for k in 1..3, n <= k+4, p = j/m on a grid (m in {1,2,3,4,6}, j = 0..m, including the "
        "default p = 1/k and p in {0, 1}) every outcome of the library's draws is executed (random() walks the m grid cells, "
        "randrange(k) all k slots, leaf probabilities multiplied as rationals) and for EVERY prefix length n' <= n and every arrival t "
        "P(t retained at n') must EQUAL p(1-p/k)^(n'-t) (t > k) resp. (1-p/k)^(n'-k) (t <= k) as rationals - which includes P(new "
        "arrival present right after it arrived) = p; the slot law P(slot s | entered) = 1/k is checked on the first replacement; in a quarter of the configurations the storage is a user subclass overriding get_data() to hand out copies; in a third of the configurations the storage is copied (copy.deepcopy / copy.copy) after k or k+1 arrivals and the COPY carries on - same law, same p; half of the configurations feed EQUAL observations (low-cardinality stream, arrivals identified by their stored targets). "
        "(b) Monte-Carlo (exact binomial tails, two stages, delta 1e-9/1e-6) for off-grid p drawn by Hypothesis, larger k/n and the "
        "explainers' default (k=100, p=1/100). (c) Scripted: with p = 1 EVERY script of draws (including u = 0.0 and u = 1-2^-53) stores "
        "the newest arrival - the clause TreeStorage relies on. Non-trivial: n >= k+2 and 0 < p < 1; distinct = (k, n, p, outcome path) "
        "for enumeration, (k, n, p, retained set) for sampling.")
ASSUMPTIONS = ["uniformity of CPython's randrange/_randbelow and of random() (the grid is exact because acceptance thresholds lie on it)",
               "Monte-Carlo part: deviations below the reported minimal detectable effect pass"]


DUPLICATES = {'on': False, 'fork': None}


def law(k, p, n, t):
    p = Fraction(p)
    if t > k:
        return p * (1 - p / k) ** (n - t)
    return (1 - p / k) ** (n - k)


def drive(k, p, n):
    """Returns the retained id sets after every update (list of tuples) and the slot of the first replacement."""
    from ixai.storage import GeometricReservoirStorage
    if DUPLICATES.get('view'):
        # a user subclass overriding get_data() to hand out copies: the sampler must not write through that hook
        from .c07 import _snapshot_view
        GeometricReservoirStorage = _snapshot_view(GeometricReservoirStorage)
    dup = DUPLICATES['on']
    if (k + n) % 2:
        s = GeometricReservoirStorage(size=k, constant_probability=p, store_targets=dup)
    else:
        s = GeometricReservoirStorage(k, p, dup) if dup else GeometricReservoirStorage(k, p)   # positional, documented order
    hist = []
    first_slot = None
    fork = DUPLICATES.get('fork')
    for i in range(1, n + 1):
        if fork and i == fork[0] + 1:
            # a checkpoint copy taken mid-stream carries on with the stream (the original is dropped): same law, same p
            import copy
            s = copy.deepcopy(s) if fork[1] == 'deep' else copy.copy(s)
        if dup:
            # equal observations (a constant / low-cardinality stream): arrivals are identified by the target stored with them
            s.update({'v': i % 2}, i)
            ids = list(s.get_data()[1])
        else:
            s.update({'id': i})
            ids = [x['id'] for x in s.get_data()[0]]
        if first_slot is None and i > k and i in ids:
            first_slot = ids.index(i)
        hist.append(tuple(sorted(ids)))
    return hist, first_slot


def run_enum(case):
    k, n, m, j = case['k'], case['n'], case['m'], case['j']
    default = case.get('default', False)
    DUPLICATES['on'] = bool(case.get('duplicates'))
    DUPLICATES['fork'] = case.get('fork')
    DUPLICATES['view'] = bool(case.get('view'))
    p_frac = Fraction(1, k) if default else Fraction(j, m)
    p_arg = None if default else (j / m if j not in (0, m) else (0 if j == 0 else 1))
    incl = {}
    slot_counts = {}
    entered = Fraction(0)
    leaves = 0
    total = Fraction(0)
    paths = []
    try:
        for prob, (hist, first_slot), path in rng.enumerate_runs(lambda: drive(k, p_arg, n), grid=m, max_leaves=60000):
            leaves += 1
            total += prob
            if len(paths) < 400:
                paths.append(tuple(path))
            for n1, ids in enumerate(hist, start=1):
                for t in ids:
                    incl[(n1, t)] = incl.get((n1, t), Fraction(0)) + prob
            if first_slot is not None:
                slot_counts[first_slot] = slot_counts.get(first_slot, Fraction(0)) + prob
                entered += prob
    except rng.NotEnumerable as e:
        return Result(True, nontrivial=False, labels=['not_enumerable'], detail=str(e))
    if total != 1:
        return Result(False, key='C09:harness:probabilities', detail=f'leaf probabilities sum to {total}')
    for n1 in range(1, n + 1):
        for t in range(1, n1 + 1):
            want = Fraction(1) if n1 <= k else law(k, p_frac, n1, t)
            got = incl.get((n1, t), Fraction(0))
            if got != want:
                which = 'default' if default else f'{j}/{m}'
                kind = 'newest' if t == n1 else ('first-k' if t <= k else 'later')
                return Result(False, key=f'C09:law:{kind}',
                              detail=f'k={k}, p={which}: P(arrival {t} retained after {n1}) = {got} (exact), law gives {want}')
    if entered > 0:
        for s in range(k):
            if slot_counts.get(s, Fraction(0)) / entered != Fraction(1, k):
                return Result(False, key='C09:slot-not-uniform',
                              detail=f'k={k}: P(slot {s} | first replacement) = {slot_counts.get(s, 0) / entered}')
    res = Result(True, nontrivial=n >= k + 2 and 0 < p_frac < 1, labels=[f'k={k}', 'default_p' if default else 'grid_p'])
    res.detail = {'leaves': leaves, 'paths': paths}
    return res


def run_scripted_p1(case):
    """p = 1: every script stores the newest arrival."""
    k, n = case['k'], case['n']
    src = rng.Scripted(case['script'])
    from ixai.storage import GeometricReservoirStorage
    if case.get('view'):
        from .c07 import _snapshot_view
        GeometricReservoirStorage = _snapshot_view(GeometricReservoirStorage)
    with rng.patched_random(src):
        s = GeometricReservoirStorage(k, case['p1']) if k % 2 else GeometricReservoirStorage(size=k, constant_probability=case['p1'])
        for i in range(1, n + 1):
            s.update({'id': i})
            ids = [x['id'] for x in s.get_data()[0]]
            if i not in ids:
                us = [e[1] for e in src.log if e[0] == 'u']
                return Result(False, key='C09:p1-newest-missing', detail=f'k={k}, p=1: arrival {i} not stored (uniform draws {us[-3:]})')
    extremes = any(e[0] == 'u' and (e[1] == 0.0 or e[1] >= 1 - 2 ** -53) for e in src.log)
    return Result(True, nontrivial=n >= k + 2, labels=['extreme_u'] if extremes else [])


def mc_check(ctx, k, n, p, N, seen, tag):
    from ixai.storage import GeometricReservoirStorage
    pf = (1.0 / k) if p is None else float(p)
    probs = {t: (pf * (1 - pf / k) ** (n - t) if t > k else (1 - pf / k) ** (n - k)) for t in range(1, n + 1)}

    def sample(m, stage):
        random.seed(ctx.seed_for(f'c09:{tag}:{stage}'))
        counts = {}
        for _ in range(m):
            s = GeometricReservoirStorage(k, p)
            for i in range(1, n + 1):
                s.update(i)
            ids = s.get_data()[0]
            for t in ids:
                counts[t] = counts.get(t, 0) + 1
            if len(seen) < 50000:
                seen.add((k, n, repr(p), tuple(sorted(ids))))
        ctx.count(m, label=f'mc_runs:{tag}')
        return counts

    # per-arrival cells are Bernoulli counts, not a multinomial; cells_pvalue treats each cell as Binomial(N, p_t): exactly right
    ok, info = stats.TwoStage(tag, probs).decide(sample, N)
    info['min_detectable_abs_dev'] = max(stats.min_detectable(N, q, n) for q in probs.values())
    return ok, info


def run_mc(case, ctx=None):
    from ..core import Ctx
    ctx = ctx or Ctx('C09', 'quick', case.get('seed', 1))
    ok, info = mc_check(ctx, case['k'], case['n'], case['p'], case['N'], set(), case.get('tag', 'replay'))
    if ok:
        return Result(True, nontrivial=True)
    return Result(False, key='C09:mc:law', detail=_mc_detail(case['k'], case['n'], case['p'], info))


def _mc_detail(k, n, p, info):
    return (f"k={k}, n={n}, p={p}: arrival {info.get('cell')} retained with frequency {info.get('observed')}, law gives "
            f"{info.get('expected')} (stage-2 p-value {info.get('stage2_p')})")


SUBS = {'enum': run_enum, 'scripted_p1': run_scripted_p1, 'mc': run_mc}


def replay(sub, case):
    return SUBS[sub](case)


def self_check():
    rng.self_check()


def run(ctx):
    ctx.rule, ctx.assumptions = RULE, ASSUMPTIONS
    # (a) exact enumeration
    total_leaves = 0
    spaces = []
    if ctx.shard == 0:
        for k in (1, 2, 3):
            cfgs_ = [(m, j, False) for m in (1, 2, 3, 4, 6) for j in range(m + 1)] + [(k, 1, True)]
            for m, j, default in cfgs_:
                for extra in (4, 3, 2):
                    # bound the tree: leaves per update <= (m - j) + j*k
                    per = (m - j) + j * k
                    if per ** extra <= 30000:
                        break
                case = {'k': k, 'n': k + extra, 'm': m, 'j': j, 'default': default, 'duplicates': (k + m + j) % 2 == 1}
                if (k + m + j) % 4 == 1:
                    case['view'] = True
                if (k + 2 * m + j) % 3 == 0:
                    case['fork'] = [k + (j % 2), 'deep' if (m + j) % 4 else 'shallow']     # copied after k or k+1 arrivals
                res = run_enum(case)
                paths = res.detail.get('paths', []) if isinstance(res.detail, dict) else []
                if isinstance(res.detail, dict):
                    total_leaves += res.detail['leaves']
                    spaces.append(f"k={k},p={'default' if default else f'{j}/{m}'},n={k + extra}: {res.detail['leaves']} leaves")
                    res.detail = None
                ctx.record('enum', case, res)
                if res.nontrivial:
                    for pth in paths[:200]:
                        ctx.add_nontrivial('enum-path', [k, m, j, default, list(pth)])
                if not res.ok and ctx.violation('enum', res.key, res.detail, case):
                    return
        ctx.extra['enumerated_leaves'] = total_leaves
        ctx.extra['exhaustive_subspaces'] = spaces
    # (c) scripted p = 1
    s = st.fixed_dictionaries({'k': st.integers(1, 5), 'n': st.integers(1, 25), 'p1': st.sampled_from([1, 1.0]), 'view': st.booleans(),
                               'script': st.lists(st.sampled_from([0, 2 ** 53 - 1]) | st.integers(0, 2 ** 53 - 1), min_size=1, max_size=40)})
    if not ctx.search('scripted_p1', s, run_scripted_p1, ctx.n(400, 16000)):
        return
    # (b) Monte-Carlo
    seen = set()
    N = 20000 if not ctx.thorough() else 60000
    plans = [(3, 12, 0.37, 'k3'), (5, 30, None, 'k5default'), (10, 60, 0.8, 'k10'), (100, 160, None, 'explainer-default')]
    from hypothesis import given, settings, seed, Phase, HealthCheck
    drawn = []

    @seed(ctx.seed_for('c09-mc'))
    @settings(max_examples=4, database=None, deadline=None, phases=[Phase.generate], suppress_health_check=list(HealthCheck))
    @given(st.integers(1, 8), st.integers(2, 30), st.floats(0.01, 0.99))
    def draw(k, extra, p):
        drawn.append((k, k + extra, p, f'drawn{len(drawn)}'))
    draw()
    todo = plans + drawn
    if ctx.thorough():
        todo = [t for i, t in enumerate(plans) if i % ctx.nshards == ctx.shard] + drawn
    mde = {}
    for k, n, p, tag in todo:
        n_runs = N if k < 50 else max(N // 5, 3000)
        ok, info = mc_check(ctx, k, n, p, n_runs, seen, tag)
        mde[f'k={k},n={n},p={p}'] = round(info['min_detectable_abs_dev'], 5)
        if not ok:
            case = {'k': k, 'n': n, 'p': p, 'N': n_runs, 'tag': tag, 'seed': ctx.base_seed}
            if ctx.violation('mc', 'C09:mc:law', _mc_detail(k, n, p, info), case):
                break
    for s_ in sorted(seen):
        ctx.add_nontrivial('mc', list(s_), sample={'k': s_[0], 'n': s_[1], 'p': s_[2], 'retained': list(s_[3])})
    ctx.extra['min_detectable_abs_deviation'] = mde
