"""C12 - MultiValueTracker: independent per-key statistics, zero-fill, safe normalising (DESIGN 3, C12)."""
import itertools
import math

import numpy as np
from hypothesis import strategies as st
from hypothesis.stateful import rule, initialize, precondition

from ..core import Result, machine_base
from ..exact import Q, enc
from .. import gen, ref

LEVEL = 'exploration'
RULE = ("A Hypothesis RuleBasedStateMachine drives one MultiValueTracker (base Welford or ExponentialSmoothing(alpha)) with update "
        "dictionaries over a pool of str/int/float/tuple keys, so late keys and omitted keys are frequent; value family is either "
        "exact (ixv Q rationals: oracle is ==) or float (Python float/int, np.float64/float32/int64/uint8/uint64: oracle within rounding). Rules "
        "In half of the runs the caller keeps updating the base tracker OBJECT it passed to the constructor (keys that appear later must still start from scratch). "
        "'zero_out' and 'cancel' CONSTRUCT zero-sum states from the model state. After every update: keys == keys ever seen, every "
        "value == closed-form statistic of the key's zero-filled series since first appearance, N == number of update calls, "
        "get_normalized(): <=1 key -> raw; zero sum -> all 0.0 and finite; else ratios preserved and sum 1. Non-trivial: >=2 keys, "
        "one appearing late, one omitted at least once; distinct by digest of the executed op list.")
ASSUMPTIONS = ["float family: 'zero sum' is decided by summing the reported raw values in every order (<=5 keys) plus math.fsum; "
               "if the orders disagree either outcome (zeros or finite ratio-preserving values) is accepted"]

KEYS = ['a', 'b', 'output', 0, 1, 2.5, ('t', 1)]
FTYPES = {'float': float, 'int': int, 'f64': np.float64, 'f32': np.float32, 'i64': np.int64,
          # unsigned NumPy scalars are real numeric types too (0 - np.uint8(3) wraps around, np.uint8(3) - 0 does not)
          'u8': lambda x: np.uint8(abs(int(x))), 'u64': lambda x: np.uint64(abs(int(x)))}


def _mk(v, family):
    if family == 'exact':
        return Q(v)
    t, x = v
    return FTYPES[t](x)


def _key(i):
    return KEYS[i]


def _same_value(a, b):
    try:
        return a == b or (a != a and b != b)
    except Exception:
        return False


class Sim:
    def __init__(self, base, alpha, family, touch_base=False):
        from ixai.utils.tracker import MultiValueTracker, WelfordTracker, ExponentialSmoothingTracker
        self.family = family
        self.dynamic = base == 'es'
        self.alpha = Q(alpha)
        a = self.alpha if family == 'exact' else float(self.alpha)
        self.base_obj = ExponentialSmoothingTracker(alpha=a) if self.dynamic else WelfordTracker()
        self.t = MultiValueTracker(self.base_obj)
        self.touch_base = touch_base     # the caller goes on using the tracker object it passed in (e.g. as an overall statistic)
        self.model = ref.MultiStat(self.dynamic, self.alpha)
        self.n = 0
        self.late = False
        self.omitted = False
        self.zero_sum_seen = False
        self.np_zero_sum = False
        self.maxabs = 0.0
        self.eps = 2.0 ** -52

    def apply(self, op):
        """op: list of [key_index, value_spec].  Returns (key, detail) on mismatch."""
        upd = {}
        exact_upd = {}
        if self.touch_base:
            self.base_obj.update(3 if self.family == 'exact' else 3.0)     # the caller's own use of ITS tracker: keys created later still start from scratch
        for ki, v in op:
            val = _mk(v, self.family)
            upd[_key(ki)] = val
            if self.family == 'exact':
                exact_upd[_key(ki)] = val
            else:
                exact_upd[_key(ki)] = Q(int(val)) if isinstance(val, (int, np.integer)) else Q(float(val))
                if isinstance(val, np.float32):
                    self.eps = 2.0 ** -23
            self.maxabs = max(self.maxabs, abs(float(val)))
        before_keys = set(self.model.order)
        if before_keys and any(k not in before_keys for k in exact_upd):
            self.late = True
        if any(k not in exact_upd for k in before_keys):
            self.omitted = True
        snapshot = dict(upd)
        r = self.t.update(upd)
        self.n += 1
        self.model.add(exact_upd)
        if upd != snapshot:
            return 'C12:update-mutates-argument', 'update() modified the dictionary it was given'
        if self.t.N != self.n:
            return 'C12:N', f'N={self.t.N} after {self.n} update calls'
        got = dict(self.t.get())       # a copy by value: what get() reported at this moment
        want = self.model.get()
        if set(got) != set(want) or len(got) != len(want):
            return 'C12:keys', f'keys {sorted(map(repr, got))} but keys ever seen are {sorted(map(repr, want))}'
        if dict(self.t()) != got:
            return 'C12:call-vs-get', '__call__ and get() disagree'
        tol = 16 * self.n * self.eps * (self.maxabs + 1e-300)
        for k in want:
            g = got[k]
            if self.family == 'exact':
                if g != want[k]:
                    return 'C12:value', f'key {k!r}: {g!r} != closed form {want[k]!r} after {self.n} updates'
            else:
                gf = float(g)
                if not math.isfinite(gf) or abs(gf - float(want[k])) > tol:
                    return 'C12:value', f'key {k!r}: {gf!r} vs closed form {float(want[k])!r} (tol {tol:g})'
        err = self.check_normalized(got)
        if err:
            return err
        # read-only accessors must stay read-only: get() after get_normalized() still reports the base statistics, and a caller
        # editing a dictionary it was handed must not reach the tracker's state
        again = self.t.get()
        if set(again) != set(got) or any(not _same_value(again[k], got[k]) for k in got):
            return 'C12:get-after-normalized', f'get() returns {again!r} after get_normalized(); before it was {got!r}'
        for d_ in (again, self.t.get_normalized()):
            if d_:
                k0 = next(iter(d_))
                d_[k0] = 987654321
                d_.pop(k0)
        final = self.t.get()
        if set(final) != set(got) or any(not _same_value(final[k], got[k]) for k in got):
            return 'C12:returned-dict-aliases-state', f'after the caller edited returned dictionaries get() reports {final!r} instead of {got!r}'
        return None

    def check_normalized(self, raw):
        norm = self.t.get_normalized()
        if set(norm) != set(raw):
            return 'C12:normalized-keys', 'normalised view has other keys than get()'
        if len(raw) <= 1:
            if norm != raw:
                return 'C12:normalized-single', f'<=1 key must return the raw values, got {norm!r} for {raw!r}'
            return None
        vals = list(raw.values())
        for v in norm.values():
            if not math.isfinite(float(v)):
                kind = 'numpy' if any(isinstance(x, np.generic) for x in vals) else 'python'
                return f'C12:normalized-nonfinite:{kind}', f'normalised view {norm!r} of raw values {raw!r}'
        if self.family == 'exact':
            s = sum(vals, Q(0))
            if s == 0:
                self.zero_sum_seen = True
                if any(v != 0 for v in norm.values()):
                    return 'C12:normalized-zero-sum', f'zero sum must give all zeros, got {norm!r}'
                return None
            for k in raw:
                if norm[k] * s != raw[k]:
                    return 'C12:normalized-ratio', f'key {k!r}: {norm[k]!r} * sum {s!r} != {raw[k]!r}'
            if sum(norm.values(), Q(0)) != 1:
                return 'C12:normalized-sum', 'normalised values do not add up to one'
            return None
        # float family
        fl = [float(v) for v in vals]
        sums = set()
        if len(fl) <= 5:
            for perm in itertools.permutations(fl):
                acc = 0.0
                for x in perm:
                    acc += x
                sums.add(acc)
        else:
            sums.add(sum(fl))
            sums.add(sum(reversed(fl)))
        sums.add(math.fsum(fl))
        all_zero_out = all(float(v) == 0.0 for v in norm.values())
        # mixed precision (np.float32 with weak Python floats) may legitimately round a tiny sum to zero
        may_be_zero = 0.0 in sums or abs(math.fsum(fl)) <= 4 * len(fl) * self.eps * math.fsum(abs(x) for x in fl)
        must_be_zero = sums == {0.0}
        if must_be_zero:
            self.zero_sum_seen = True
            if any(isinstance(x, np.generic) for x in vals):
                self.np_zero_sum = True
            if not all_zero_out:
                return 'C12:normalized-zero-sum', f'zero sum must give all zeros, got {norm!r} for {raw!r}'
            return None
        if all_zero_out and may_be_zero:
            return None
        # ratios preserved: norm[k] * raw[j] == norm[j] * raw[k]; sum one (relative to the cancellation present)
        ks = list(raw)
        nf = {k: float(norm[k]) for k in ks}
        rf = {k: float(raw[k]) for k in ks}
        big = max(abs(x) for x in nf.values()) * max(abs(x) for x in rf.values()) + 1e-300
        for a, b in zip(ks, ks[1:]):
            if abs(nf[a] * rf[b] - nf[b] * rf[a]) > 64 * self.eps * big:
                return 'C12:normalized-ratio', f'ratios not preserved: {norm!r} vs {raw!r}'
        tot = math.fsum(nf.values())
        sabs = math.fsum(abs(x) for x in nf.values())
        if abs(tot - 1.0) > 16 * len(ks) * self.eps * max(1.0, sabs):
            return 'C12:normalized-sum', f'normalised values add up to {tot!r}: {norm!r}'
        return None

    def nontrivial(self):
        return len(self.model.order) >= 2 and self.late and self.omitted


def run_case(case):
    sim = Sim(case['base'], case['alpha'], case['family'], case.get('touch_base', False))
    for op in case['ops']:
        err = sim.apply(op)
        if err:
            return Result(False, key=err[0], detail=err[1])
    labels = [case['base'], case['family']]
    if sim.zero_sum_seen:
        labels.append('zero_sum')
    if sim.np_zero_sum:
        labels.append('zero_sum_numpy')
    return Result(True, nontrivial=sim.nontrivial(), labels=labels)


def _value(family):
    # small magnitudes are ordinary values too (importances around 1e-10): a sum of 1e-9 is small, not zero
    if family == 'exact':
        return gen.rational(num=st.integers(-12, 12), den=st.integers(1, 4)) | \
            st.sampled_from(['1/1000000000', '-3/10000000000', '1/1000000000000', '7/10000000000'])
    return st.tuples(st.sampled_from(sorted(FTYPES)), st.integers(-8, 8)).map(list) | \
        st.tuples(st.sampled_from(['float', 'f64', 'f32']), st.sampled_from([0.5, -0.5, 0.25, 1.5, -2.75, 0.1, 1e-3, 100.0])).map(list) | \
        st.tuples(st.sampled_from(['float', 'f64']), st.sampled_from([1e-9, -3e-10, 2.5e-12, 7e-10])).map(list)


def make_machine():
    Base = machine_base()

    class MVMachine(Base):
        def __init__(self):
            super().__init__()
            self.sim = None

        @initialize(base=st.sampled_from(['welford', 'es']), alpha=gen.alpha01(closed_zero=False),
                    family=st.sampled_from(['exact', 'float']), touch=st.booleans())
        def setup(self, base, alpha, family, touch):
            self.cfg = {'base': base, 'alpha': alpha, 'family': family, 'touch_base': touch}
            self.sim = Sim(base, alpha, family, touch)
            self.ops = []

        def _do(self, op):
            self.ops.append(op)
            err = self.sim.apply(op)
            if err:
                self.fail(err[0], err[1], dict(self.cfg, ops=list(self.ops)))

        @rule(data=st.data())
        def update(self, data):
            fam = self.cfg['family']
            keys = data.draw(st.lists(st.integers(0, len(KEYS) - 1), min_size=0, max_size=4, unique=True))
            op = [[k, data.draw(_value(fam))] for k in keys]
            self._do(op)

        @precondition(lambda self: self.sim is not None and len(self.sim.model.order) >= 2)
        @rule(data=st.data())
        def cancel(self, data):
            """+v / -v on two tracked keys and 0 elsewhere (zero sum for alpha = 1 and for fresh Welford pairs)."""
            fam = self.cfg['family']
            ks = self.sim.model.order
            i, j = data.draw(st.sampled_from([(a, b) for a in range(len(ks)) for b in range(len(ks)) if a < b]))
            v = data.draw(st.integers(1, 9))
            if fam == 'exact':
                op = [[KEYS.index(ks[i]), v], [KEYS.index(ks[j]), -v]]
            else:
                t = data.draw(st.sampled_from(['float', 'f64', 'f32', 'i64', 'int']))
                op = [[KEYS.index(ks[i]), [t, v]], [KEYS.index(ks[j]), [t, -v]]]
            self._do(op)

        @precondition(lambda self: self.sim is not None and len(self.sim.model.order) >= 2
                      and self.cfg['family'] == 'exact')
        @rule()
        def zero_out(self):
            """Choose the next update so that the statistics sum to exactly zero afterwards (computed from the model)."""
            m = self.sim.model
            ks = m.order
            # after the update the total is sum_k f_k(u_k); make key0 absorb everything, others get 0
            tot_others = Q(0)
            for k in ks[1:]:
                s = m.stats[k]
                if m.dynamic:
                    tot_others += (1 - m.alpha) * s.s
                else:
                    tot_others += s.s / (s.n + 1)
            s0 = m.stats[ks[0]]
            if m.dynamic:
                if m.alpha == 0:
                    return
                u0 = (-tot_others - (1 - m.alpha) * s0.s) / m.alpha
            else:
                u0 = -tot_others * (s0.n + 1) - s0.s
            op = [[KEYS.index(ks[0]), enc(u0)]] + [[KEYS.index(k), 0] for k in ks[1:]]
            self._do(op)

        @rule()
        def all_zero(self):
            fam = self.cfg['family']
            op = [[i, 0 if fam == 'exact' else ['f64', 0]] for i in range(2)]
            self._do(op)

        def teardown(self):
            if self.sim is None:
                return
            labels = [self.cfg['base'], self.cfg['family']]
            if self.sim.zero_sum_seen:
                labels.append('zero_sum')
            if self.sim.np_zero_sum:
                labels.append('zero_sum_numpy')
            self.done(dict(self.cfg, ops=list(self.ops)), Result(True, nontrivial=self.sim.nontrivial(), labels=labels))

    return MVMachine


@st.composite
def list_cases(draw):
    fam = draw(st.sampled_from(['exact', 'float']))
    ops = draw(st.lists(st.lists(st.tuples(st.integers(0, len(KEYS) - 1), _value(fam)).map(list), max_size=4,
                                 unique_by=lambda kv: kv[0]), max_size=14))
    return {'base': draw(st.sampled_from(['welford', 'es'])), 'alpha': draw(gen.alpha01(closed_zero=False)),
            'family': fam, 'ops': ops}


SUBS = {'machine': run_case, 'lists': run_case}


def replay(sub, case):
    return run_case(case)


def self_check():
    ref.self_check()


def run(ctx):
    ctx.rule, ctx.assumptions = RULE, ASSUMPTIONS
    if not ctx.machine_search('machine', make_machine(), ctx.n(500, 40000), 25):
        return
    ctx.search('lists', list_cases(), run_case, ctx.n(800, 40000))
