"""C13 - a river metric used as loss is a pure, smaller-is-better function of its inputs (DESIGN 3, C13)."""
import inspect
import math

from hypothesis import strategies as st
from hypothesis.stateful import rule, initialize, precondition

from ..core import Result, machine_base, HarnessError

LEVEL = 'exploration'
RULE = ("The metric classes are ENUMERATED from the installed river (river.metrics subclasses of Metric constructible with defaults, "
        "plus the FBeta family with generated beta) and filtered by validate_loss_function acceptance. Per run a RuleBasedStateMachine "
        "holds ONE shared metric object and 1..3 loss wrappers obtained by calling validate_loss_function on it at arbitrary points of "
        "the history (each explainer construction probes the metric again); rule call(wrapper_j, y_true, y_pred) draws inputs from the "
        "metric's own domain (regression: finite floats, > -1 for log-based, non-zero targets for percentage errors; binary: bool labels "
        "with bool or probability predictions as the metric requires; multi-class: labels from a small pool; dict-input: probability "
        "dicts); prediction dicts carry extra keys besides 'output'; LONG runs (4300 calls per metric for a rotating selection, thorough: 70000 for all) look for periodic clean-ups and saturating counters. Oracle: a FRESH instance of the same class updated with that single "
        "pair: fresh.get() * (-1 if bigger_is_better else +1), relative tolerance 1e-12; the dict/single routing is implied by which of "
        "the two the oracle feeds; metric.get() is unchanged by every call and by every validate_loss_function probe. If the fresh "
        "metric itself raises on an input the step is outside the domain and is discarded (counted). Non-trivial: history of >=5 calls "
        "over >=2 wrappers with >=3 distinct (y, y_hat) pairs containing a repeated pair after different intermediate pairs; distinct "
        "by digest of the op list.")
ASSUMPTIONS = ["river 0.26.1 as installed; the fresh-instance value is the specification of 'the value a fresh metric reports after that "
               "single pair'", "values compare equal if both are NaN"]

LABELS = [0, 1, 2, 'a', 'b', '1', '10', 2 ** 60 + 1, 2 ** 60 + 2]   # digit strings and ints beyond 2**53: float(x) != x
FBETA = {'FBeta', 'MacroFBeta', 'MicroFBeta', 'WeightedFBeta'}


def metric_table():
    """name -> (factory, kind) for every accepted metric of the installed river."""
    import warnings
    from river import metrics
    from river.metrics.base import Metric, RegressionMetric, BinaryMetric, MultiClassMetric
    from ixai.utils.validators.loss import validate_loss_function
    table = {}
    rejected = []
    for name in sorted(dir(metrics)):
        cls = getattr(metrics, name)
        if not (inspect.isclass(cls) and issubclass(cls, Metric)) or inspect.isabstract(cls):
            continue
        variants = [(name, lambda cls=cls: cls())]
        if name in FBETA:
            variants = [(f'{name}[beta={b}]', lambda cls=cls, b=b: cls(beta=b)) for b in (0.5, 2)]
        for vname, fac in variants:
            try:
                m = fac()
            except Exception:
                rejected.append(vname + ':unconstructible')
                continue
            try:
                w = validate_loss_function(m)
            except Exception:
                rejected.append(vname + ':rejected-by-validator')
                continue
            # the input kind is derived from river's own class hierarchy (not from what the library under test decided):
            # probability metrics that are not binary take a dict of label probabilities
            if isinstance(m, RegressionMetric):
                kind = 'reg_log' if name == 'RMSLE' else ('reg_pct' if name in ('MAPE', 'SMAPE') else 'reg')
            elif not isinstance(m, BinaryMetric) and getattr(m, 'requires_labels', True) is False:
                kind = 'dict'
            elif isinstance(m, BinaryMetric):
                kind = 'bin_label' if getattr(m, 'requires_labels', True) else 'bin_proba'
            elif isinstance(m, MultiClassMetric):
                kind = 'multi'
            else:
                kind = 'multi'
            table[vname] = (fac, kind)
    return table, rejected


_TABLE = None


def table():
    global _TABLE
    if _TABLE is None:
        _TABLE = metric_table()
    return _TABLE


def _same(a, b, rel=1e-12):
    try:
        fa, fb = float(a), float(b)
    except Exception:
        return a == b
    if math.isnan(fa) and math.isnan(fb):
        return True
    if math.isinf(fa) or math.isinf(fb):
        return fa == fb
    return abs(fa - fb) <= rel * max(abs(fa), abs(fb), 1e-300) or abs(fa - fb) <= 1e-300


def _mk_pred(kind, p, extra):
    """JSON pair -> (prediction dict for the loss, argument the oracle feeds to the fresh metric)."""
    if kind == 'dict':
        probs = {LABELS[i]: v for i, v in p}
        return dict(probs), dict(probs)
    val = p
    if kind == 'multi':
        val = LABELS[p]
    pred = {'output': val}
    for i, e in enumerate(extra):
        pred[f'extra_{i}'] = e
    return pred, val


def _mk_true(kind, y):
    if kind in ('multi', 'dict'):
        return LABELS[y]
    return y


class _MetricBroken(Exception):
    pass


class Sim:
    def __init__(self, name):
        from ixai.utils.validators.loss import validate_loss_function
        self.validate = validate_loss_function
        tab, _ = table()
        if name not in tab:
            raise HarnessError(f'metric {name} not in the installed river')
        self.name = name
        self.fac, self.kind = tab[name]
        self.metric = self.fac()
        self.usable = True
        try:
            self.initial = self.metric.get()
        except Exception:
            # a metric whose fresh instance cannot even report a value is outside the quantifier (counted as discarded)
            self.usable = False
            self.initial = None
        self.wrappers = []
        self.wrapper_kinds = []  # 'auto' | 'manual_dict'
        self.calls = []          # (wrapper index, pair repr)
        self.discarded = 0

    def apply(self, op):
        if not self.usable:
            self.discarded += 1
            return None
        try:
            return self._apply(op)
        except _MetricBroken as e:
            return f'C13:metric-state-corrupted:{self.kind}', f'{self.name}: metric.get() raised {e.args[0]!r} after the loss calls {self.calls[-4:]}'

    def _get(self):
        try:
            return self.metric.get()
        except Exception as e:
            raise _MetricBroken(e)

    def _apply(self, op):
        if op[0] == 'wrap':
            before = self._get()
            try:
                w = self.validate(self.metric)
            except Exception as e:
                return 'C13:validator-rejects-used-metric', f'{self.name}: validate_loss_function raised {e!r} on a metric it accepted when fresh'
            after = self._get()
            if not _same(before, after):
                return f'C13:probe-not-reverted:{self.kind}', f'{self.name}: validate_loss_function changed metric.get() from {before!r} to {after!r}'
            if len(self.wrappers) < 3:
                self.wrappers.append(w)
                self.wrapper_kinds.append('auto')
            return None
        if op[0] == 'wrap_manual_dict':
            # the metric is wrapped by hand with the documented optional flag (probability dicts {False: p0, True: p1}) and the wrapper
            # is then handed to validate_loss_function, as an explainer constructor does
            from ixai.utils.wrappers.river import RiverMetricToLossFunction
            if self.kind != 'bin_proba' or len(self.wrappers) >= 3:
                return None
            before = self._get()
            try:
                w = self.validate(RiverMetricToLossFunction(self.metric, dict_input_metric=True))
            except Exception as e:
                return 'C13:validator-rejects-wrapper', f'{self.name}: validate_loss_function raised {e!r} on a RiverMetricToLossFunction'
            if not _same(before, self._get()):
                return f'C13:probe-not-reverted:{self.kind}', f'{self.name}: validating a wrapped metric changed metric.get()'
            self.wrappers.append(w)
            self.wrapper_kinds.append('manual_dict')
            return None
        _c, wi, y, p, extra = op
        if not self.wrappers:
            return None
        w = self.wrappers[wi % len(self.wrappers)]
        y_true = _mk_true(self.kind, y)
        pred, arg = _mk_pred(self.kind, p, extra)
        if self.wrapper_kinds[wi % len(self.wrappers)] == 'manual_dict':
            pred = {False: 1.0 - p, True: p}
            arg = dict(pred)
        fresh = self.fac()
        try:
            fresh.update(y_true, arg)
            want = fresh.get()
        except Exception:
            self.discarded += 1
            return None
        sign = -1.0 if getattr(fresh, 'bigger_is_better', False) else 1.0
        before = self._get()
        pred_snapshot = dict(pred)
        try:
            got = w(y_true, pred)
        except Exception as e:
            return f'C13:exception:{self.kind}', f'{self.name}: loss({y_true!r}, {pred!r}) raised {e!r} although a fresh metric accepts the pair'
        after = self._get()
        self.calls.append((wi % len(self.wrappers), repr((y_true, arg))))
        if pred != pred_snapshot:
            return 'C13:prediction-mutated', f'{self.name}: the prediction dict was modified'
        if not _same(got, want * sign):
            return (f'C13:value:{self.kind}', f'{self.name}: call {len(self.calls)} loss({y_true!r}, {arg!r}) = {got!r}, a fresh metric '
                    f'reports {want!r} after that single pair (sign {sign:+.0f}); earlier calls: {self.calls[-6:-1]}')
        if not _same(before, after):
            return f'C13:metric-changed:{self.kind}', f'{self.name}: metric.get() changed from {before!r} to {after!r} by a loss call'
        return None

    def nontrivial(self):
        if len(self.calls) < 5 or len({c[0] for c in self.calls}) < 2:
            return False
        pairs = [c[1] for c in self.calls]
        if len(set(pairs)) < 3:
            return False
        for i, pr in enumerate(pairs):
            for j in range(i + 2, len(pairs)):
                if pairs[j] == pr and any(q != pr for q in pairs[i + 1:j]):
                    return True
        return False


def run_case(case):
    if 'long_calls' in case:
        case = long_case(case['metric'], case['long_calls'])
    try:
        sim = Sim(case['metric'])
    except HarnessError:
        return Result(True, nontrivial=False, labels=['metric_not_installed'])
    for op in case['ops']:
        err = sim.apply(op)
        if err:
            return Result(False, key=err[0], detail=err[1])
    return Result(True, nontrivial=sim.nontrivial(), labels=[sim.kind, 'm:' + case['metric']] + (['discarded_steps'] if sim.discarded else []))


def _pair_strategy(kind):
    ffin = st.one_of(st.integers(-5, 5).map(float), st.floats(-100, 100, allow_nan=False, width=64),
                     st.sampled_from([0.0, 1.0, -1.0, 0.5, 2.0]))
    if kind == 'reg':
        big = st.integers(0, 40).map(lambda k: 2 ** 60 + k)     # integer targets beyond 2**53 (float(x) != x)
        return st.one_of(st.tuples(ffin, ffin), st.tuples(ffin, ffin), st.tuples(big, big))
    if kind == 'reg_log':
        pos = st.one_of(st.integers(0, 6).map(float), st.floats(0, 50, allow_nan=False))
        return st.tuples(pos, pos)
    if kind == 'reg_pct':
        nz = st.one_of(st.integers(1, 6).map(float), st.floats(0.5, 50, allow_nan=False), st.integers(-6, -1).map(float))
        return st.tuples(nz, ffin)
    if kind == 'bin_label':
        return st.tuples(st.booleans(), st.booleans())
    if kind == 'bin_proba':
        return st.tuples(st.booleans(), st.one_of(st.sampled_from([0.0, 1.0, 0.5, 0.25, 0.9]), st.floats(0, 1, allow_nan=False)))
    if kind == 'multi':
        return st.tuples(st.integers(0, len(LABELS) - 1), st.integers(0, len(LABELS) - 1))
    if kind == 'dict':
        probs = st.lists(st.tuples(st.integers(0, len(LABELS) - 1), st.sampled_from([0.1, 0.2, 0.5, 0.7, 1.0, 0.05, 0.0, 0.0])).map(list),
                         min_size=1, max_size=4, unique_by=lambda kv: kv[0])
        return st.tuples(st.integers(0, len(LABELS) - 1), probs)
    raise ValueError(kind)


def make_machine(names):
    Base = machine_base()

    class MetricMachine(Base):
        def __init__(self):
            super().__init__()
            self.sim = None

        @initialize(name=st.sampled_from(names))
        def setup(self, name):
            self.name = name
            self.sim = Sim(name)
            self.ops = []
            self.pool = []
            self._do(['wrap'])

        def _do(self, op):
            self.ops.append(op)
            err = self.sim.apply(op)
            if err:
                self.fail(err[0], err[1], {'metric': self.name, 'ops': list(self.ops)})

        @rule()
        def wrap_again(self):
            self._do(['wrap'])

        @precondition(lambda self: self.sim is not None and self.sim.kind == 'bin_proba')
        @rule()
        def wrap_manual_dict(self):
            self._do(['wrap_manual_dict'])

        @rule(data=st.data(), wi=st.integers(0, 2), extra=st.lists(st.integers(-3, 3), max_size=2))
        def call_new(self, data, wi, extra):
            y, p = data.draw(_pair_strategy(self.sim.kind))
            self.pool.append((y, p))
            self._do(['call', wi, y, p, extra])

        @precondition(lambda self: self.sim is not None and len(self.pool) >= 1)
        @rule(data=st.data(), wi=st.integers(0, 2))
        def call_repeat(self, data, wi):
            y, p = data.draw(st.sampled_from(self.pool))
            self._do(['call', wi, y, p, []])

        def teardown(self):
            if self.sim is None:
                return
            labels = [self.sim.kind, 'm:' + self.name] + (['discarded_steps'] if self.sim.discarded else [])
            self.done({'metric': self.name, 'ops': list(self.ops)}, Result(True, nontrivial=self.sim.nontrivial(), labels=labels))

    return MetricMachine


LONG_PAIRS = {'reg': [(1.0, 2.5), (-3.0, 0.5), (0.0, 0.0)], 'reg_log': [(1.0, 2.5), (3.0, 0.5), (0.0, 0.0)], 'reg_pct': [(1.0, 2.5), (-3.0, 0.5), (2.0, 2.0)],
              'bin_label': [(True, False), (True, True), (False, True)], 'bin_proba': [(True, 0.25), (False, 0.9), (True, 1.0)],
              'multi': [(0, 1), (1, 1), (2, 0)], 'dict': [(0, [[0, 0.7], [1, 0.2]]), (1, [[0, 0.5], [1, 0.5]]), (2, [[2, 1.0]])]}


def long_case(name, n_calls):
    """Two wrappers of one metric object, thousands of loss calls (periodic clean-ups, saturating counters): every call is checked like
    any other (value of a fresh metric, metric.get() unchanged)."""
    tab, _ = table()
    kind = tab[name][1]
    pairs = LONG_PAIRS[kind]
    ops = [['wrap'], ['wrap']]
    for i in range(n_calls):
        y, p = pairs[i % len(pairs)]
        ops.append(['call', i % 2, y, p, []])
    return {'metric': name, 'ops': ops}


SUBS = {'machine': run_case, 'per_metric': run_case, 'long': run_case}


def replay(sub, case):
    return run_case(case)


def run(ctx):
    ctx.rule, ctx.assumptions = RULE, ASSUMPTIONS
    tab, rejected = table()
    names = sorted(tab)
    ctx.extra['metrics_accepted'] = len(names)
    ctx.extra['metrics_outside_quantifier'] = rejected
    if ctx.thorough():
        names_shard = names
    else:
        names_shard = names
    # every metric gets its own budget of machines, so that no metric is starved by sampling
    per = max(2, ctx.n(2200, 160000) // len(names))
    # LONG runs: a rotating selection of metrics in the quick tier, all of them (spread over the shards) in the thorough tier
    if ctx.thorough():
        long_names = [nm for i, nm in enumerate(names) if i % ctx.nshards == ctx.shard]
        n_calls = 70000
    else:
        start = ctx.base_seed % max(len(names), 1)
        long_names = [names[(start + 7 * j) % len(names)] for j in range(6)] + [nm for nm in ('LogLoss', 'MAE', 'Accuracy') if nm in names]
        n_calls = 4300
    for nm in long_names:
        case = {'metric': nm, 'long_calls': n_calls}
        res = run_case(case)
        res.labels = list(res.labels) + ['long_run']
        ctx.record('long', case, res)
        if not res.ok:
            ctx.violation('long', res.key, res.detail, case)
            break
    for nm in names_shard:
        if not ctx.machine_search(f'machine', make_machine([nm]), per, 30):
            # keep going: collect the other metrics' findings too (root causes are keyed by kind)
            continue
