"""C08 - UniformReservoirStorage keeps a uniformly random k-subset of the stream (DESIGN 3, C08)."""
import math
import random
from itertools import combinations

import numpy as np
from hypothesis import strategies as st

from ..core import Result
from .. import stats

LEVEL = 'exploration'
RULE = ("Algorithm L consumes continuous uniforms, so this property is decided statistically (rule 2.7 of DESIGN.md): for every "
        "k in 1..3 and n in k..k+6 the FULL histogram of retained subsets over N independent runs of the library's own sampler is "
        "compared cell by cell with 1/C(n,k) (exact two-sided binomial tail, Bonferroni over the cells, alarm only if p < 1e-9 AND an "
        "independent confirmation run with 4N executions gives p < 1e-6); n = k is asserted deterministically (everything retained); store_targets alternates between the pairs (the law must not depend on it) and with store_targets the observations are EQUAL-valued dicts identified by their targets; "
        "for larger pairs (5,40), (10,100), (100,300 = the explainers' default size) and Hypothesis-drawn pairs (k<=12, n<=k+40) the "
        "per-arrival inclusion counts are compared with k/n (one pair with another seeded library object constructed next to the reservoir in every run; one pair where a deep copy taken after a third of the stream is fed a long what-if continuation and dropped while the original carries on; one pair where the same list of observation dicts feeds two reservoirs in turn); BLOCKS: the documented default size (UniformReservoirStorage(), 1000 slots) on 6000 arrivals (thorough: 40000; k=100 on 3e6; k=300 on 9000) - well over 1024 replacements per run - with the retained count per sixth of the stream bounded by Hoeffding's inequality for sampling without replacement (rigorous, delta 1e-9); LONG streams (k=1, n=30000; k=2, n=25000 - beyond 1e4*k, where numerical guards on the weight would bite) are tested per decile of the stream. N = 4e4 per pair (quick), 2e6 spread over 16 workers (thorough). "
        "Non-trivial: n >= k+2 (at least two skip computations); distinct = distinct (k, n, retained subset) outcomes observed.")
ASSUMPTIONS = ["CPython's Mersenne Twister stream, consumed sequentially from one seed derived from VERIF_SEED, yields independent runs",
               "deviations below the reported minimal detectable effect pass"]


def one_run(k, n, st=None, fork=False):
    """store_targets alternates with (k + n) unless given: the sampling law must not depend on whether targets are kept.
    fork: after a third of the stream a deep copy is taken, fed a long what-if continuation and dropped; the ORIGINAL carries on."""
    from ixai.storage import UniformReservoirStorage
    if st is None:
        st = (k + n) % 2 == 0
    s = UniformReservoirStorage(size=k, store_targets=st) if n % 3 else UniformReservoirStorage(k, st)   # keyword and positional
    if fork:
        import copy
        cut = max(k, n // 3)
        for i in range(1, cut + 1):
            s.update({'id': i})
        what_if = copy.deepcopy(s)
        for i in range(3 * n):
            what_if.update({'id': -1 - i})
        del what_if
        for i in range(cut + 1, n + 1):
            s.update({'id': i})
        return tuple(sorted(x['id'] for x in s.get_data()[0]))
    if st:
        # EQUAL observations (a binary feature): arrivals are identified by the target stored with them
        for i in range(1, n + 1):
            s.update({'v': i % 2}, i)
        return tuple(sorted(s.get_data()[1]))
    for i in range(1, n + 1):
        s.update({'id': i})
    xs, _ = s.get_data()
    return tuple(sorted(x['id'] for x in xs))


def shared_run(k, n):
    """ONE list of observation dicts feeds two reservoirs in turn (two explainers with their own storages on one stream): what one of
    them does with an evicted observation must not show in the other.  Returns the retained arrivals of the first reservoir,
    identified by the identity of the caller's dict objects."""
    from ixai.storage import UniformReservoirStorage
    a, b = UniformReservoirStorage(size=k, store_targets=False), UniformReservoirStorage(size=max(1, k - 1), store_targets=False)
    stream = [{'id': i} for i in range(1, n + 1)]
    for x in stream:
        a.update(x)
        b.update(x)
    ids = []
    for x in a.get_data()[0]:
        hit = [i for i, s_ in enumerate(stream, start=1) if s_ is x]
        ids.append(hit[0] if hit and x == {'id': hit[0]} else -1)      # -1: not the caller's object any more, or its content was rewritten
    return tuple(sorted(ids))


def subset_check(ctx, k, n, N, seen):
    ncomb = math.comb(n, k)
    probs = {c: 1.0 / ncomb for c in combinations(range(1, n + 1), k)}

    def sample(m, stage):
        random.seed(ctx.seed_for(f'c08:{k}:{n}:{stage}'))
        counts = {}
        for _ in range(m):
            r = one_run(k, n)
            if len(r) != k or len(set(r)) != k:
                counts[('malformed', r)] = counts.get(('malformed', r), 0) + 1
                continue
            counts[r] = counts.get(r, 0) + 1
        ctx.count(m, label=f'runs:k={k},n={n}')
        for r in counts:
            if n >= k + 2:
                seen.add((k, n, r))
        return counts

    ok, info = stats.TwoStage(f'subset k={k} n={n}', probs).decide(sample, N)
    info['min_detectable_abs_dev'] = stats.min_detectable(N, 1.0 / ncomb, ncomb)
    return ok, info


def inclusion_check(ctx, k, n, N, seen, neighbour=False):
    """neighbour: every run also constructs ANOTHER library object with a seed of its own next to the reservoir (a TreeStorage with an
    explicit tree seed): the reservoir's draws remain those of the global generator, whoever else lives in the program."""
    probs = {t: k / n for t in range(1, n + 1)}

    def sample(m, stage):
        random.seed(ctx.seed_for(f'c08:incl:{k}:{n}:{stage}'))
        counts = {}
        for _ in range(m):
            if neighbour == 'fork':
                r = one_run(k, n, st=False, fork=True)
            elif neighbour == 'shared':
                r = shared_run(k, n)
            else:
                if neighbour:
                    from ixai.storage import TreeStorage
                    TreeStorage(cat_feature_names=['c'], num_feature_names=['a'], seed=42)
                r = one_run(k, n)
            for t in r:
                counts[t] = counts.get(t, 0) + 1
            if n >= k + 2 and len(seen) < 200000:
                seen.add((k, n, r))
        ctx.count(m, label=f'runs:k={k},n={n}')
        return counts

    ok, info = stats.TwoStage(f'inclusion k={k} n={n}', probs).decide(sample, N)
    info['min_detectable_abs_dev'] = stats.min_detectable(N, k / n, n)
    return ok, info


def long_check(ctx, k, n, N, seen):
    """Long streams (n >> 1e4 k): per decile of the stream, the indicator 'at least one retained arrival lies in this decile'
    has probability 1 - C(n-m, k)/C(n, k) with m = n/10 (for k = 1: exactly 1/10)."""
    from ixai.storage import UniformReservoirStorage
    m = n // 10
    p_cell = 1.0 - math.comb(n - m, k) / math.comb(n, k)
    probs = {j: p_cell for j in range(10)}

    def sample(runs, stage):
        random.seed(ctx.seed_for(f'c08:long:{k}:{n}:{stage}'))
        counts = {}
        for _ in range(runs):
            s = UniformReservoirStorage(size=k, store_targets=False)
            upd = s.update
            for i in range(n):
                upd({'id': i})
            kept = [x['id'] for x in s.get_data()[0]]
            for j in {min(t // m, 9) for t in kept}:
                counts[j] = counts.get(j, 0) + 1
            if len(seen) < 200000:
                seen.add((k, n, tuple(sorted(kept))))
        ctx.count(runs, label=f'runs:k={k},n={n}')
        return counts

    ok, info = stats.TwoStage(f'long k={k} n={n}', probs).decide(sample, N)
    info['min_detectable_abs_dev'] = stats.min_detectable(N, p_cell, 10)
    return ok, info


def block_check(ctx, k, n, R, seen, blocks=6):
    """The documented DEFAULT size (UniformReservoirStorage() = 1000 slots; k is only used to cross-check it) and other large k on
    streams long enough for well over a thousand replacements per run (k ln(n/k) >> 1000): the number of retained arrivals per
    block of the stream, summed over R runs, is a sum of R*k draws without replacement; Hoeffding's inequality (valid without
    replacement) bounds its deviation from R*k*|block|/n rigorously: P(|S - E| >= t) <= 2 exp(-2 t^2 / (R k))."""
    from ixai.storage import UniformReservoirStorage
    edges = [round(j * n / blocks) for j in range(blocks + 1)]
    totals = [0] * blocks
    random.seed(ctx.seed_for(f'c08:block:{k}:{n}'))
    for r in range(R):
        s = UniformReservoirStorage() if k == 1000 else UniformReservoirStorage(size=k)
        upd = s.update
        for i in range(n):
            upd({'id': i})
        kept = [x['id'] for x in s.get_data()[0]]
        if len(kept) != k or len(set(kept)) != k:
            return False, {'cell': 'size', 'observed': len(set(kept)), 'expected': k, 'bound': 0}
        for t in kept:
            j = 0
            while t >= edges[j + 1]:
                j += 1
            totals[j] += 1
        if len(seen) < 200000:
            seen.add((k, n, tuple(sorted(kept)[:12])))
    ctx.count(R, label=f'runs:k={k},n={n}')
    delta = stats.DELTA1 / blocks
    t_bound = math.sqrt(R * k * math.log(2.0 / delta) / 2.0)
    info = {'N': R, 'cells': blocks, 'bound_abs': t_bound, 'min_detectable_abs_dev': t_bound / (R * k)}
    for j in range(blocks):
        exp = R * k * (edges[j + 1] - edges[j]) / n
        if abs(totals[j] - exp) > t_bound:
            info.update(cell=f'block {j} (arrivals {edges[j]}..{edges[j + 1] - 1})', observed=totals[j] / (R * k), expected=exp / (R * k),
                        stage1_p=delta, stage2_p=delta)
            return False, info
    return True, info


def run_pair(case, ctx=None):
    """Replay entry: one (k, n) pair with the subset histogram (small) or inclusion counts (large)."""
    from ..core import Ctx
    ctx = ctx or Ctx('C08', 'quick', case.get('seed', 1))
    seen = set()
    k, n, N = case['k'], case['n'], case['N']
    if n == k:
        r = one_run(k, n)
        ok = r == tuple(range(1, n + 1))
        return Result(ok, key='C08:n-equals-k', detail=f'k=n={k}: retained {r}')
    if case['kind'] == 'subset':
        ok, info = subset_check(ctx, k, n, N, seen)
    elif case['kind'] == 'long':
        ok, info = long_check(ctx, k, n, N, seen)
    elif case['kind'] == 'block':
        ok, info = block_check(ctx, k, n, N, seen)
    elif case['kind'] == 'inclusion+neighbour':
        ok, info = inclusion_check(ctx, k, n, N, seen, neighbour=True)
    elif case['kind'] == 'inclusion+fork':
        ok, info = inclusion_check(ctx, k, n, N, seen, neighbour='fork')
    elif case['kind'] == 'inclusion+shared':
        ok, info = inclusion_check(ctx, k, n, N, seen, neighbour='shared')
    else:
        ok, info = inclusion_check(ctx, k, n, N, seen)
    if not ok:
        return Result(False, key=f"C08:{case['kind']}:not-uniform",
                      detail=(f"k={k}, n={n}: cell {info.get('cell')} observed with frequency {info.get('observed'):.5f}, "
                              f"uniform law gives {info.get('expected'):.5f} (stage-2 p={info.get('stage2_p'):.3g}, N={4 * N})"))
    res = Result(True, nontrivial=n >= k + 2)
    res.detail = info
    return res


SUBS = {'pair': run_pair}


def replay(sub, case):
    return run_pair(case)


def run(ctx):
    ctx.rule, ctx.assumptions = RULE, ASSUMPTIONS
    seen = set()
    N = 40000 if not ctx.thorough() else 125000
    pairs = [(k, n, 'subset') for k in (1, 2, 3) for n in range(k, k + 7)]
    big = [(5, 40, 'inclusion'), (10, 100, 'inclusion'), (100, 300, 'inclusion'), (1, 30000, 'long'), (2, 25000, 'long'),
           (3, 12, 'inclusion+neighbour'), (3, 30, 'inclusion+fork'), (3, 20, 'inclusion+shared'), (1000, 6000, 'block')]
    if ctx.thorough():
        big += [(1000, 40000, 'block'), (100, 3000000, 'block'), (300, 9000, 'block')]
    # Hypothesis-drawn additional pairs (deterministic in the seed)
    from hypothesis import given, settings, seed, Phase, HealthCheck
    drawn = []

    @seed(ctx.seed_for('c08-pairs'))
    @settings(max_examples=6 if not ctx.thorough() else 4, database=None, deadline=None, phases=[Phase.generate],
              suppress_health_check=list(HealthCheck))
    @given(st.integers(1, 12), st.integers(2, 40))
    def draw(k, extra):
        drawn.append((k, k + extra, 'inclusion'))
    draw()
    todo = pairs + big + drawn
    if ctx.thorough():
        todo = [p for i, p in enumerate(pairs + big) if i % ctx.nshards == ctx.shard] + drawn
        if len([p for p in todo if p[2] == 'subset']) == 0:
            todo = todo
    mde = {}
    for k, n, kind in todo:
        if n == k:
            r = one_run(k, n)
            ctx.count(1)
            if r != tuple(range(1, n + 1)):
                ctx.violation('pair', 'C08:n-equals-k', f'k=n={k}: retained {r}', {'k': k, 'n': n, 'N': 1, 'kind': kind})
                return
            continue
        n_runs = N if n <= 50 else max(N // 8, 5000)
        if kind == 'long':
            n_runs = 700 if not ctx.thorough() else 6000
            ok, info = long_check(ctx, k, n, n_runs, seen)
        elif kind == 'block':
            n_runs = (6 if not ctx.thorough() else 40) if n < 10 ** 6 else 3
            ok, info = block_check(ctx, k, n, n_runs, seen)
        elif kind == 'inclusion+neighbour':
            n_runs = max(N // 8, 5000)
            ok, info = inclusion_check(ctx, k, n, n_runs, seen, neighbour=True)
        elif kind == 'inclusion+fork':
            n_runs = max(N // 8, 5000)
            ok, info = inclusion_check(ctx, k, n, n_runs, seen, neighbour='fork')
        elif kind == 'inclusion+shared':
            n_runs = max(N // 8, 5000)
            ok, info = inclusion_check(ctx, k, n, n_runs, seen, neighbour='shared')
        elif kind == 'subset':
            ok, info = subset_check(ctx, k, n, n_runs, seen)
        else:
            ok, info = inclusion_check(ctx, k, n, n_runs, seen)
        mde[f'k={k},n={n},{kind}'] = round(info['min_detectable_abs_dev'], 5)
        if not ok:
            case = {'k': k, 'n': n, 'N': n_runs, 'kind': kind, 'seed': ctx.base_seed}
            detail = (f"k={k}, n={n}: cell {info.get('cell')} observed with frequency {info.get('observed'):.5f}, uniform law gives "
                      f"{info.get('expected'):.5f} (stage-1 p={info.get('stage1_p'):.3g}, stage-2 p={info.get('stage2_p'):.3g})")
            if ctx.violation('pair', f'C08:{kind}:not-uniform', detail, case):
                break
    for s in sorted(seen):
        ctx.add_nontrivial('pair', list(s), sample={'k': s[0], 'n': s[1], 'retained': list(s[2])})
    ctx.extra['min_detectable_abs_deviation'] = mde
    ctx.extra['pairs_checked'] = len(todo)
