"""C20 - float results stay close to exact arithmetic on long, ill-conditioned streams (DESIGN 3, C20)."""
import math
import random

import numpy as np
from hypothesis import strategies as st

from ..core import Result
from ..exact import Q
from .. import cfgs, gen, refx

LEVEL = 'exploration'
RULE = ("Case = (ordering in {random, sorted, reversed, alternating sign, constant-then-jump, mixed magnitude, constant}, n up to 2e4 "
        "(thorough 1e6), scale 1e-8..1e8, offset in {0, 1e3, 1e6, 1e9} x scale, value seed); the values come from a PRNG seeded by the "
        "case; alpha in {1, 1/2, 0.3, 0.1, 1e-3, 1e-5}. Oracle: EXACT arithmetic on the same float inputs - floats are scaled to a common "
        "binary exponent and mean / population variance are computed in big integers, the smoothed value in 400-bit fixed point. "
        "Bounds: |mean-exact| <= 4 n eps max|v|; |var-exact| <= 8 n eps kappa var with kappa = sqrt(1+mean^2/var) (constant streams: "
        "0 <= var <= 8 n eps mean^2); |smoothed-exact| <= 8 eps max|v| / alpha; all results finite, std real and = sqrt(var). Explainer "
        "level: IncrementalPFI / IncrementalSage runs whose losses carry a large common offset (1e6..1e12), float run vs exact-rational "
        "twin with identical seeds: |delta importance| <= 16 (d+2) t eps max(|loss|, scale) after every call; TIGHT variant (IncrementalPFI, one inner "
        "sample, integer data / model / loss values with a power-of-two offset 2^30..2^40, so that every loss and every per-observation difference is exact): "
        "|delta importance| <= 16 (d+2) t eps max(1, SPREAD of the losses) - a large common loss level must not cost digits; a third of these cases instead scale all data by 2^-15 / 2^-20 (two inner samples, squared loss ~1e-9..1e-12, still exact) - small magnitudes must not cost digits either; QUIET TAIL: an active stream followed by "
        "hundreds to thousands of constant observations (dynamic setting, alpha 0.3..0.9) so that the smoothed importances decay through the "
        "subnormal range to zero - importance values, variances, both normalised views and the confidence bounds must stay finite throughout. Non-trivial: kappa >= 1e3 "
        "and n >= 1e3 (trackers) / offset >= 1e6 and >= 3 explained observations (explainers); distinct by case digest.")
ASSUMPTIONS = ["the constants 4, 8, 8, 16 are this harness's reading of 'a small multiple' (calibrated with >= 8x head-room on the shipped code)",
               "|v| <= 1e17: no overflow domain"]

EPS = 2.0 ** -52
ORDERINGS = ['random', 'sorted', 'reversed', 'alternating', 'const_then_jump', 'mixed_magnitude', 'constant']
ALPHAS = [1.0, 0.5, 0.3, 0.1, 1e-3, 1e-5]


def make_values(case):
    rs = random.Random(case['vseed'])
    n, scale, offset = case['n'], case['scale'], case['offset'] * case['scale']
    o = case['ordering']
    if o == 'constant':
        v = [offset + scale * 0.37] * n
    elif o == 'const_then_jump':
        k = max(1, n // 2)
        v = [offset + scale * 0.5] * k + [offset + scale * (0.5 + rs.uniform(1, 2))] * (n - k)
    elif o == 'mixed_magnitude':
        v = [offset + scale * rs.uniform(-1, 1) * (10.0 ** rs.randint(-6, 0)) for _ in range(n)]
    else:
        v = [offset + scale * rs.uniform(-1, 1) for _ in range(n)]
        if o == 'sorted':
            v.sort()
        elif o == 'reversed':
            v.sort(reverse=True)
        elif o == 'alternating':
            v = [x if i % 2 == 0 else -x for i, x in enumerate(v)]
    return v


def to_scaled_ints(vals):
    """floats -> (ints, E) with v_i == ints_i * 2**E exactly."""
    parts = []
    emin = None
    for v in vals:
        if v == 0.0:
            parts.append((0, 0))
            continue
        m, e = math.frexp(v)
        M = int(m * 9007199254740992.0)   # m * 2**53 is an integer
        ex = e - 53
        parts.append((M, ex))
        emin = ex if emin is None or ex < emin else emin
    if emin is None:
        emin = 0
    return [M << (ex - emin) if M else 0 for M, ex in parts], emin


def exact_mean_var(vals):
    ints, E = to_scaled_ints(vals)
    n = len(ints)
    s = sum(ints)
    s2 = sum(i * i for i in ints)
    mean = Q(s, n) * (Q(2) ** E)
    var_num = n * s2 - s * s          # n^2 * var / 2^(2E)
    var = Q(var_num, n * n) * (Q(2) ** (2 * E))
    return mean, var


def exact_smooth(vals, alpha, bits=400):
    """sum alpha (1-alpha)^(n-i) v_i in fixed point with `bits` fractional bits (relative to the common exponent)."""
    ints, E = to_scaled_ints(vals)
    an, ad = float(alpha).as_integer_ratio()
    one = 1 << bits
    A = (an << bits) // ad
    B = one - A
    T = 0
    for i in ints:
        T = (B * T + A * (i << bits)) >> bits
    return Q(T, one) * (Q(2) ** E)


def run_tracker(case):
    from ixai.utils.tracker import WelfordTracker, ExponentialSmoothingTracker
    vals = make_values(case)
    n = len(vals)
    maxabs = max(abs(v) for v in vals)
    if not all(math.isfinite(v) for v in vals) or maxabs > 1e17:
        return Result(True, nontrivial=False, labels=['outside_domain'])
    w = WelfordTracker()
    es = ExponentialSmoothingTracker(alpha=case['alpha'])
    for v in vals:
        w.update(v)
        es.update(v)
    mean, var, std, sm = w.mean, w.var, w.std, es.get()
    for nm, g in (('mean', mean), ('var', var), ('std', std), ('smoothed', sm)):
        if isinstance(g, complex) or not math.isfinite(float(g)):
            return Result(False, key=f'C20:not-finite:{nm}', detail=f'{nm}={g!r} for finite inputs ({case})')
    em, ev = exact_mean_var(vals)
    err_mean = abs(float(Q(mean) - em))
    b_mean = 4 * n * EPS * maxabs
    ratios = {'mean': err_mean / (n * EPS * maxabs) if maxabs else 0.0}
    if err_mean > b_mean:
        return Result(False, key='C20:welford-mean', detail=f'|mean - exact| = {err_mean:.3g} > 4 n eps max|v| = {b_mean:.3g} ({_brief(case)})')
    evf = float(ev)
    emf = float(em)
    if ev == 0:
        lim = 8 * n * EPS * emf * emf
        if not (0 <= var <= lim):
            return Result(False, key='C20:welford-var-constant', detail=f'constant stream: var = {var!r}, allowed [0, {lim:.3g}] ({_brief(case)})')
        kappa = float('inf')
    else:
        kappa = math.sqrt(1 + emf * emf / evf)
        rel = abs(float(Q(var) - ev)) / evf
        ratios['var'] = rel / (n * EPS * kappa)
        if rel > 8 * n * EPS * kappa:
            return Result(False, key='C20:welford-var', detail=(f'relative variance error {rel:.3g} > 8 n eps kappa = {8 * n * EPS * kappa:.3g} '
                                                               f'(kappa {kappa:.3g}; var {var!r} vs exact {evf!r}; {_brief(case)})'))
        if var < 0:
            return Result(False, key='C20:welford-var-negative', detail=f'var = {var!r}')
    if abs(std - math.sqrt(max(var, 0.0))) > 4 * EPS * max(std, 1e-300):
        return Result(False, key='C20:std', detail=f'std {std!r} is not sqrt(var) {math.sqrt(max(var, 0.0))!r}')
    esx = exact_smooth(vals, case['alpha'])
    err_es = abs(float(Q(sm) - esx))
    b_es = 8 * EPS * maxabs / case['alpha']
    ratios['smoothed'] = err_es / (EPS * maxabs / case['alpha']) if maxabs else 0.0
    if err_es > b_es:
        return Result(False, key='C20:smoothing', detail=f'|smoothed - exact| = {err_es:.3g} > 8 eps max|v| / alpha = {b_es:.3g} ({_brief(case)})')
    nt = kappa >= 1e3 and n >= 1000
    res = Result(True, nontrivial=nt, labels=[case['ordering'], f"offset={case['offset']:g}", f"alpha={case['alpha']:g}"])
    res.detail = ratios
    return res


def _brief(case):
    return f"ordering={case['ordering']}, n={case['n']}, scale={case['scale']:g}, offset={case['offset']:g}x, alpha={case['alpha']:g}, vseed={case['vseed']}"


def run_explainer(case):
    """Float run vs exact twin with identical seeds; losses carry a large common offset."""
    cfg = case['cfg']
    outs = {}
    scales = {}
    for mode in ('exact', 'float'):
        c = dict(cfg, mode=mode)
        h = cfgs.Harness(c, record_imputer=False)
        random.seed(cfg['seeds'][0])
        np.random.seed(cfg['seeds'][1])
        ex = h.pfi() if case['cls'] == 'pfi' else h.sage()
        h.prefill(ex)
        seq = []
        for row in cfg['stream']:
            x, y = h.row(row)
            kw = {}
            if row.get('n_inner') is not None:
                kw['n_inner_samples'] = row['n_inner']
            try:
                ex.explain_one(x, y, **kw)
            except TypeError as e:
                if mode == 'exact' and case.get('tight'):
                    return _tight_by_reference(case)      # no exact twin: the closed-form reference on the float run decides
                if mode == 'exact':   # float-only (NumPy) functions applied to losses: no exact twin available for this implementation
                    return Result(True, nontrivial=False, labels=['exact_arithmetic_unsupported'])
                return Result(False, key='C20:explainer:exception:TypeError', detail=f'[{mode}] {e!r}')
            except Exception as e:
                return Result(False, key=f'C20:explainer:exception:{type(e).__name__}', detail=f'[{mode}] {e!r}')
            seq.append({refx.norm_key(k): v for k, v in ex.importance_values.items()})
        outs[mode] = seq
        scales[mode] = max(h.loss.maxabs, h.loss.scale)
        if case.get('tight') and mode == 'float':
            # every loss value is an exactly representable integer (plus a power-of-two offset): the per-observation differences are
            # exact, so the error must be relative to the SPREAD of the losses, not to their level - a large common offset must not cost digits
            lv = [float(c[2]) for c in h.loss.calls] or [0.0]
            unit = 2.0 ** (-2 * case.get('shift', 0))          # data scaled by 2^-shift: squared losses are multiples of 2^(-2 shift)
            if any((v / unit) != int(v / unit) or abs(v / unit) >= 2.0 ** 51 for v in lv):
                return Result(True, nontrivial=False, labels=['tight_not_applicable'])
            scales[mode] = max(max(lv) - min(lv), unit)
    d = cfg['d']
    explained = 0
    for t, (a, b) in enumerate(zip(outs['exact'], outs['float']), start=1):
        if not a:
            continue
        explained += 1
        tol = 16 * (d + 2) * t * EPS * scales['float']
        for f in a:
            g = b[f]
            if not math.isfinite(float(g)):
                return Result(False, key='C20:explainer:not-finite', detail=f'{case["cls"]}: importance of {f!r} is {g!r} after call {t}')
            err = abs(float(Q(float(g)) - a[f]))
            if err > tol:
                return Result(False, key=f"C20:explainer:{case['cls']}:drift",
                              detail=(f'call {t}: importance of {f!r} float {float(g)!r} vs exact {float(a[f])!r}: error {err:.3g} > '
                                      f'16(d+2)t eps max|loss| = {tol:.3g} (loss offset {cfg["loss"].get("offset")})'))
    off = abs(cfg['loss'].get('offset') or 0)
    return Result(True, nontrivial=(off >= 1e6 or bool(case.get('shift'))) and explained >= 3,
                  labels=[case['cls'], f'offset={off:g}'] + (['tight'] if case.get('tight') else []) + ([f"shift={case['shift']}"] if case.get('shift') else []))


def _tight_by_reference(case):
    """Tight variant when the implementation rejects exact rationals: the float run is compared with the independent closed-form PFI
    reference (exact rationals) evaluated on the imputer calls recorded during that very run - all recorded values are exact dyadic numbers."""
    cfg = dict(case['cfg'], mode='float')
    h = cfgs.Harness(cfg, record_imputer=True)
    random.seed(cfg['seeds'][0])
    np.random.seed(cfg['seeds'][1])
    ex = h.pfi()
    h.prefill(ex)
    r = refx.PfiRef(cfg)
    d = cfg['d']
    explained = 0
    for t, row in enumerate(cfg['stream']):
        x, y = h.row(row)
        mark = len(h.imputer.calls)
        seen = ex.seen_samples
        try:
            ex.explain_one(x, y)
        except Exception as e:
            return Result(False, key=f'C20:explainer:exception:{type(e).__name__}', detail=f'[float] {e!r}')
        calls = h.imputer.calls[mark:]
        if seen == 0 or not calls:
            continue
        err = r.step(x, y, calls, cfg['n_inner'])
        if err:
            return Result(True, nontrivial=False, labels=['tight_reference_not_applicable'], detail=str(err))
        explained += 1
        lv = [float(c[2]) for c in h.loss.calls] or [0.0]
        unit = 2.0 ** (-2 * case.get('shift', 0))
        if any((v / unit) != int(v / unit) or abs(v / unit) >= 2.0 ** 51 for v in lv):
            return Result(True, nontrivial=False, labels=['tight_not_applicable'])
        spread = max(max(lv) - min(lv), unit)
        tol = 16 * (d + 2) * (t + 1) * EPS * spread
        want = r.expected()['importance_values']
        got = {refx.norm_key(k): v for k, v in ex.importance_values.items()}
        for f, w in want.items():
            g = got.get(f)
            if g is None or not math.isfinite(float(g)) or abs(float(Q(float(g)) - w)) > tol:
                return Result(False, key='C20:explainer:pfi:drift',
                              detail=(f'call {t + 1}: importance of {f!r} float {g!r} vs closed form {float(w)!r}: error '
                                      f'{abs(float(Q(float(g)) - w)) if g is not None else None!r} > 16(d+2)t eps spread = {tol:.3g} (spread of the losses {spread:.3g})'))
    return Result(True, nontrivial=explained >= 3, labels=['pfi', 'tight', 'tight_by_reference', 'exact_arithmetic_unsupported'])


@st.composite
def tight_cases(draw):
    """IncrementalPFI with ONE inner sample on integer data, integer model and integer-valued losses carrying a power-of-two offset:
    all losses and all per-observation contributions are exact in floating point."""
    cfg = draw(cfgs.config_st(dmax=4, tmin=4, tmax=14, modes=('exact',), multi=False))
    cfg['model']['outs'][0]['label'] = 'output'
    for k in ('out_scale', 'opt', 'array_out'):
        cfg['model'].pop(k, None)
    # SMALL magnitudes: all data scaled by 2^-shift (still exact), no offset, and TWO inner samples (the mean of two exact losses is exact):
    # an absolute quantisation of the contributions (rounding to so-and-so many decimals) is invisible at magnitude 1 and fatal at 1e-9
    shift = draw(st.sampled_from([0, 0, 15, 20]))
    cfg['n_inner'] = 2 if shift else 1
    for r in cfg['stream']:
        r['x'] = [int(Q(v)) if not shift else f'{int(Q(v))}/{2 ** shift}' for v in r['x']]
        r['y'] = int(Q(r['y'])) if not shift else f'{int(Q(r["y"]))}/{2 ** shift}'
        r['n_inner'] = None
        r['opt'] = None
    if shift:
        cfg['loss'] = {'kind': 'sq', 'c': [0, 0, 0, 0]}
        cfg['prefill'] = 0
        cfg['imputer'] = {'kind': 'marginal', 'strategy': draw(st.sampled_from(['joint', 'product']))}
        for o in cfg['model']['outs']:
            o['b'] = 0                      # a homogeneous model: outputs scale with the data
            o['pair'] = None
    else:
        cfg['loss'] = {'kind': draw(st.sampled_from(['sq', 'abs', 'poly'])), 'c': [draw(st.integers(-3, 3)) for _ in range(4)],
                       'offset': draw(st.sampled_from([2 ** 30, 2 ** 40, -2 ** 36]))}
    return {'cls': 'pfi', 'cfg': cfg, 'tight': True, 'shift': shift}


def run_quiet_tail(case):
    """An active stream followed by a long CONSTANT tail (constant-then-jump, read backwards): with exponential smoothing the
    importance values decay geometrically through the subnormal range down to zero.  Everything the explainer reports - importance
    values, variances, both normalised views, the confidence bounds - must stay finite all the way (all inputs are finite)."""
    from ixai.explainer import IncrementalPFI
    from ixai.explainer.sage import IncrementalSage
    from ixai.storage import IntervalStorage
    from ixai.imputer import MarginalImputer
    d, alpha = case['d'], case['alpha']
    names = [f'f{i}' for i in range(d)]
    w = case['weights']

    def model(x):
        return {'output': sum(w[i % len(w)] * x[n] for i, n in enumerate(names))}

    def loss(y, p):
        return (y - p['output']) ** 2
    random.seed(case['seeds'][0])
    np.random.seed(case['seeds'][1])
    storage = IntervalStorage(size=case['k'], store_targets=False)
    imputer = MarginalImputer(model, 'joint', storage)
    cls = IncrementalPFI if case['cls'] == 'pfi' else IncrementalSage
    ex = cls(model, loss, names, storage=storage, imputer=imputer, smoothing_alpha=alpha, dynamic_setting=True, n_inner_samples=1)
    rs = random.Random(case['vseed'])
    n_active, n_tail = case['active'], case['tail']
    const = {n: 0.25 * (i + 1) for i, n in enumerate(names)}
    smallest = None
    for t in range(n_active + n_tail):
        if t < n_active:
            x = {n: rs.uniform(-2, 2) * case['scale'] for n in names}
            y = rs.uniform(-1, 1) * case['scale']
        else:
            x, y = dict(const), 1.0
        try:
            ex.explain_one(x, y)
        except Exception as e:
            return Result(False, key=f'C20:quiet-tail:exception:{type(e).__name__}', detail=f'call {t + 1}: {e!r}')
        if t < n_active or (t % 16 and t < n_active + n_tail - 40):
            continue
        views = {'importance': ex.importance_values, 'variance': ex.variances}
        try:
            views['normalised:sum'] = ex.get_normalized_importance_values(mode='sum')
            views['normalised:delta'] = ex.get_normalized_importance_values(mode='delta')
            views['bound'] = ex.get_confidence_bound(0.1)
        except Exception as e:
            return Result(False, key=f'C20:quiet-tail:exception:{type(e).__name__}', detail=f'call {t + 1}: {e!r}')
        mags = [abs(float(v)) for v in views['importance'].values() if float(v) != 0.0]
        if mags:
            smallest = min(mags) if smallest is None else min(smallest, min(mags))
        for what, dct in views.items():
            for f, v in dct.items():
                if not math.isfinite(float(v)):
                    return Result(False, key=f'C20:quiet-tail:not-finite:{what.split(":")[0]}',
                                  detail=(f'{case["cls"]} alpha={alpha}: after call {t + 1} ({t + 1 - n_active} constant observations) {what} of {f!r} '
                                          f'is {v!r}; importance values {dict(views["importance"])!r}'))
    sub = smallest is not None and smallest < 2.3e-308
    return Result(True, nontrivial=sub, labels=[case['cls'], 'reached_subnormal' if sub else 'not_subnormal'])


@st.composite
def quiet_cases(draw):
    alpha = draw(st.sampled_from([0.5, 0.3, 0.7, 0.9]))
    # (1-alpha)^tail must pass 1e-308 .. 5e-324: tail ~ 745 / -ln(1-alpha)
    tail = int(760 / -math.log(1 - alpha)) + 30
    return {'cls': draw(st.sampled_from(['pfi', 'sage'])), 'd': draw(st.integers(2, 3)), 'alpha': alpha, 'k': draw(st.integers(1, 3)),
            'weights': [draw(st.sampled_from([1.0, -0.5, 2.0, 0.75])) for _ in range(3)], 'active': draw(st.integers(4, 12)), 'tail': tail,
            'scale': draw(st.sampled_from([1.0, 1e3, 1e-3])), 'vseed': draw(st.integers(0, 10 ** 6)),
            'seeds': [draw(gen.seed32) % 2 ** 31, draw(gen.seed32) % 2 ** 31]}


@st.composite
def tracker_cases(draw, nmax):
    n = draw(st.sampled_from([10, 100, 1000, 2000, 5000, nmax, nmax // 2]))
    return {'ordering': draw(st.sampled_from(ORDERINGS)), 'n': n,
            'scale': draw(st.sampled_from([1.0, 1e-8, 1e8, 1e-3, 1e3, 0.1])),
            'offset': draw(st.sampled_from([1e6, 0.0, 1e3, 1e9])), 'alpha': draw(st.sampled_from(ALPHAS)),
            'vseed': draw(st.integers(0, 10 ** 6))}


@st.composite
def explainer_cases(draw):
    cfg = draw(cfgs.config_st(dmax=4, tmin=4, tmax=14, modes=('exact',), multi=False))
    cfg['model']['outs'][0]['label'] = 'output'
    cfg['loss'] = {'kind': draw(st.sampled_from(['sq', 'abs', 'poly'])), 'c': [draw(st.integers(-3, 3)) for _ in range(4)],
                   'offset': draw(st.sampled_from([1e6, 1e9, 1e12, 0, -1e9]))}
    return {'cls': draw(st.sampled_from(['pfi', 'sage'])), 'cfg': cfg}


SUBS = {'tracker': run_tracker, 'explainer': run_explainer, 'quiet_tail': run_quiet_tail, 'explainer_tight': run_explainer}


def replay(sub, case):
    return SUBS[sub](case)


def self_check():
    vals = [0.1, 0.2, 0.30000000000000004, -7.5, 1e-8, 123456.789]
    em, ev = exact_mean_var(vals)
    qs = [Q(v) for v in vals]
    m = sum(qs, Q(0)) / len(qs)
    assert em == m and ev == sum(((q - m) ** 2 for q in qs), Q(0)) / len(qs), 'big-integer mean/variance oracle broken'
    a = 0.3
    t = Q(0)
    for q in qs:
        t = (1 - Q(a)) * t + Q(a) * q
    assert abs(float(exact_smooth(vals, a) - t)) < 1e-60, 'fixed-point smoothing oracle broken'


def run(ctx):
    ctx.rule, ctx.assumptions = RULE, ASSUMPTIONS
    worst = {'mean': 0.0, 'var': 0.0, 'smoothed': 0.0}

    def rt(case):
        res = run_tracker(case)
        if isinstance(res.detail, dict):
            for k, v in res.detail.items():
                worst[k] = max(worst[k], v)
            res.detail = None
        return res

    ctx.search('tracker', tracker_cases(1000000 if ctx.thorough() else 20000), rt, ctx.n(260, 2400))
    ctx.extra['worst_ratio_to_unit_bound'] = {k: round(v, 4) for k, v in worst.items()}
    if not ctx.search('explainer', explainer_cases(), run_explainer, ctx.n(700, 16000)):
        return
    if not ctx.search('quiet_tail', quiet_cases(), run_quiet_tail, ctx.n(16, 640), shrink=False):
        return
    ctx.search('explainer_tight', tight_cases(), run_explainer, ctx.n(300, 16000))
