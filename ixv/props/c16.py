"""C16 - normalised importances and confidence bounds are well-formed for all values (DESIGN 3, C16)."""
import itertools
import math
import random

import numpy as np
from hypothesis import strategies as st

from ..core import Result
from ..exact import Q
from .. import cfgs, gen, refx

LEVEL = 'exploration'
RULE = ("(a) importance dictionaries with values of type int, float, exact rational, np.float64, np.float32, np.int64 - all-zero, "
        "all-equal, sign-mixed and CONSTRUCTED zero-sum dictionaries - are injected through the public importance_values attribute of "
        "an explainer subclass and normalised in both modes; (b) explainer states REACHED through the public API: IncrementalPFI / "
        "IncrementalSage driven by generated streams (PFI yields NumPy floats; models ignoring every feature give all-zero importances; "
        "constant models give zero sums), then get_normalized_importance_values('sum'/'delta'), variances, get_confidence_bound(delta) "
        "for delta in (0,1] including 1 and tiny values, after every call. Oracle: factor = sum or max-min; factor == 0 -> every value "
        "0.0 and finite; otherwise out*factor == in (exact for rationals, 8 eps relative for floats), sum(out) == 1 resp. range(out) == 1; "
        "variances >= 0; bound_f == (1-alpha)^t + sqrt(var_f*alpha/((2-alpha)*delta)) within 1e-12 relative, positive, finite; "
        "delta1 < delta2 -> bound(delta1) >= bound(delta2). Non-trivial: zero normaliser with a NumPy value type, or negative sum, or a "
        "delta pair on a state with non-zero variance; distinct by case digest.")
ASSUMPTIONS = ["float values: the normaliser counts as zero only if every summation order gives exactly 0.0 (else zeros or finite "
               "ratio-preserving values are both accepted when some order gives 0.0)",
               "alpha in the bound is the configured smoothing_alpha (also in static mode), t = seen_samples"]

TYPES = {'int': int, 'float': float, 'q': Q, 'f64': np.float64, 'f32': np.float32, 'i64': np.int64}


def _conv(t, v, scale=1):
    if t in ('int', 'i64'):
        return TYPES[t](int(v))
    if t == 'q':
        return Q(v) * Q(scale)
    return TYPES[t](float(Q(v)) * float(scale))


def check_normalised(raw, out, mode, eps=2.0 ** -52):
    """raw, out: dicts.  Returns (key-suffix, detail) or None.  Sets flags in the returned info via exceptions-free tuple."""
    if not isinstance(out, dict) or set(out) != set(raw) or len(out) != len(raw):
        return 'keys', f'normalised dict has other keys: {out!r} vs {raw!r}'
    vals = list(raw.values())
    if not vals:
        return None
    np_kind = 'numpy' if any(isinstance(v, np.generic) for v in vals) else 'python'
    for v in out.values():
        try:
            f = float(v)
        except Exception:
            return 'not-numeric', f'{v!r}'
        if not math.isfinite(f):
            return f'nonfinite:{mode}:{np_kind}', f'normalised values {out!r} for raw values {raw!r}'
    exact = all(isinstance(v, (int, Q)) and not isinstance(v, (bool, np.generic)) for v in vals)
    if any(isinstance(v, np.float32) for v in vals):
        eps = 2.0 ** -23
    all_zero_out = all(float(v) == 0.0 for v in out.values())
    if mode == 'delta':
        exact_vals = [Q(v) for v in vals]          # exact comparison (np.float32 == Q would compare in single precision)
        hi, lo = max(exact_vals), min(exact_vals)
        must_zero = (hi == lo)
        # mixed precision: the library's own max - min may round to zero (or not) when the values differ in the last float32 bits
        may_zero = must_zero or float(hi - lo) <= 4 * eps * max(abs(float(hi)), abs(float(lo)))
        if any(isinstance(v, np.float32) for v in vals) and float(hi - lo) < 2.0 ** -126:
            may_zero = True      # below the smallest normal float32: in single precision (mixed with weak Python scalars) the range underflows
        if not must_zero and may_zero and not all_zero_out:
            return _finite_ratio_check(raw, out, mode, eps)
        factor = hi - lo if not must_zero else Q(0)
    else:
        if exact:
            factor = sum((Q(v) for v in vals), Q(0))
            must_zero = may_zero = factor == 0
        else:
            fl = [float(v) for v in vals]
            sums = set()
            if len(fl) <= 5:
                for perm in itertools.permutations(fl):
                    acc = 0.0
                    for x in perm:
                        acc += x
                    sums.add(acc)
            else:
                sums.update([sum(fl), sum(reversed(fl))])
            sums.add(math.fsum(fl))
            if any(isinstance(v, np.float32) for v in vals) and len(fl) <= 5:
                # single-precision accumulation (NumPy keeps float32 when Python scalars are mixed in) rounds differently
                for perm in itertools.permutations(vals):
                    acc = np.float32(0.0)
                    for x in perm:
                        acc = np.float32(acc + np.float32(x))
                    sums.add(float(acc))
            must_zero = sums == {0.0}
            if must_zero and any(isinstance(v, Q) for v in vals) and sum((Q(v) for v in vals), Q(0)) != 0:
                # rationals next to floats: the rational type absorbs the floats exactly, so the library's own sum is the exact one
                must_zero = False
            may_zero = 0.0 in sums or abs(math.fsum(fl)) <= 4 * len(fl) * eps * math.fsum(abs(x) for x in fl)
            factor = None
    if must_zero:
        if not all_zero_out:
            return f'zero-normaliser:{mode}', f'normaliser is zero, expected all 0.0, got {out!r} for {raw!r}'
        return None
    if all_zero_out and may_zero:
        return None
    if exact and all(isinstance(v, (int, Q)) for v in out.values()):
        for k in raw:
            if out[k] * factor != raw[k]:
                return f'ratio:{mode}', f'key {k!r}: {out[k]!r} * {factor!r} != {raw[k]!r}'
        return None
    # floats: ratios preserved pairwise, and sum / range equal to one
    ks = list(raw)
    of = {k: float(out[k]) for k in ks}
    rf = {k: float(raw[k]) for k in ks}
    big = max(abs(x) for x in of.values()) * max(abs(x) for x in rf.values()) + 1e-300
    for a, b in zip(ks, ks[1:]):
        if abs(of[a] * rf[b] - of[b] * rf[a]) > 64 * eps * big:
            return f'ratio:{mode}', f'ratios not preserved: {out!r} vs {raw!r}'
    if any(rf[k] != 0 for k in ks) and all(of[k] == 0 for k in ks):
        return f'ratio:{mode}', f'non-zero raw values normalised to zeros: {raw!r}'
    # sign/scale: out must be raw / factor, not raw / -factor or raw / |factor|
    sabs = math.fsum(abs(x) for x in of.values())
    if mode == 'sum':
        tot = math.fsum(of.values())
        if abs(tot - 1.0) > 16 * len(ks) * eps * max(1.0, sabs):
            return f'sum-one:{mode}', f'normalised values add up to {tot!r}: {out!r} for {raw!r}'
    else:
        rng_ = max(of.values()) - min(of.values())
        if abs(rng_ - 1.0) > 16 * eps * max(1.0, sabs):
            return f'range-one:{mode}', f'normalised range is {rng_!r}: {out!r} for {raw!r}'
        # orientation: the largest raw value stays the largest
        kmax = max(ks, key=lambda k: rf[k])
        if of[kmax] < max(of.values()) - 64 * eps * max(1.0, sabs):   # ties may differ by mixed-precision rounding
            return f'ratio:{mode}', f'order reversed: {out!r} for {raw!r}'
    return None


def _finite_ratio_check(raw, out, mode, eps):
    """Ambiguous (near-)zero normaliser and a non-zero output: values must be finite and proportional to the raw values."""
    ks = list(raw)
    of = {k: float(out[k]) for k in ks}
    rf = {k: float(raw[k]) for k in ks}
    big = max(abs(x) for x in of.values()) * max(abs(x) for x in rf.values()) + 1e-300
    for a, b in zip(ks, ks[1:]):
        if abs(of[a] * rf[b] - of[b] * rf[a]) > 1e-3 * big:
            return f'ratio:{mode}', f'ratios not preserved: {out!r} vs {raw!r}'
    return None


def _injector():
    """An explainer subclass whose importance_values is whatever we set: the public attribute the normaliser reads."""
    from ixai.explainer.base import BaseIncrementalFeatureImportance

    class Injected(BaseIncrementalFeatureImportance):
        def __init__(self, values):
            super().__init__(model_function=lambda x: {'output': 0.0}, loss_function=lambda y, p: 0.0,
                             feature_names=list(values))
            self._values = values

        @property
        def importance_values(self):
            return self._values

        def explain_one(self, *a, **k):
            return self._values

    return Injected


def run_dict(case):
    vals = {k: _conv(t, v, case.get('scale', 1)) for k, (t, v) in zip(case['keys'], case['values'])}
    Inj = _injector()
    ex = Inj(vals)
    snapshot = dict(vals)
    labels = []
    nt = False
    for mode in ('sum', 'delta'):
        try:
            out = ex.get_normalized_importance_values(mode=mode)
        except Exception as e:
            return Result(False, key=f'C16:normalise:exception:{type(e).__name__}', detail=f'mode {mode}: {e!r} for {vals!r}')
        err = check_normalised(vals, out, mode)
        if err:
            return Result(False, key=f'C16:{err[0]}', detail=err[1])
        if vals != snapshot:
            return Result(False, key='C16:mutated', detail='the importance dictionary was modified by normalising')
    fl = [float(v) for v in vals.values()]
    np_type = any(isinstance(v, np.generic) for v in vals.values())
    zero_sum = math.fsum(fl) == 0
    zero_rng = max(fl) == min(fl)
    if (zero_sum or zero_rng) and np_type:
        nt = True
        labels.append('zero_normaliser_numpy')
    if math.fsum(fl) < 0:
        nt = True
        labels.append('negative_sum')
    if zero_sum:
        labels.append('zero_sum')
    labels += sorted({t for t, _ in case['values']})
    if case.get('scale', 1) != 1:
        labels.append(f"scale={case['scale']:g}")
    return Result(True, nontrivial=nt, labels=labels)


def run_stream(cfg):
    h = cfgs.Harness(cfg, record_imputer=False)
    random.seed(cfg['seeds'][0])
    np.random.seed(cfg['seeds'][1])
    ex = h.pfi() if cfg['cls'] == 'pfi' else h.sage()
    h.prefill(ex)
    alpha = float(Q(cfg['alpha']))
    nt = False
    labels = [cfg['cls'], h.mode]
    for t, row in enumerate(cfg['stream']):
        x, y = h.row(row)
        kw = {}
        if row.get('n_inner') is not None:
            kw['n_inner_samples'] = row['n_inner']
        if not row.get('upd', True):
            kw['update_storage'] = False
        ex.explain_one(x, y, **kw)
        iv = ex.importance_values
        if not iv:
            continue
        for mode in ('sum', 'delta'):
            try:
                out = ex.get_normalized_importance_values(mode=mode)
            except Exception as e:
                return Result(False, key=f'C16:normalise:exception:{type(e).__name__}', detail=f'call {t + 1} mode {mode}: {e!r}')
            err = check_normalised(iv, out, mode)
            if err:
                return Result(False, key=f'C16:{err[0]}', detail=f'call {t + 1} ({cfg["cls"]}, {h.mode}): {err[1]}')
        var = ex.variances
        for f, v in var.items():
            if not (v >= 0) or not math.isfinite(float(v)):
                return Result(False, key='C16:variance-negative', detail=f'call {t + 1}: variance of {f!r} is {v!r}')
        bounds = {}
        for j, delta in enumerate(cfg['deltas']):
            dl = float(delta) if 'e' in delta else float(Q(delta))
            # the same delta as a Python float, a NumPy float, the int 1 (the closed end of ]0, 1]) or - where exactly representable - float32
            how = (t + j) % 4
            d_arg = dl
            if how == 1:
                d_arg = np.float64(dl)
            elif how == 2 and dl == 1.0:
                d_arg = 1
            elif how == 2 and float(np.float32(dl)) == dl:
                d_arg = np.float32(dl)
            try:
                b = ex.get_confidence_bound(d_arg)
            except Exception as e:
                return Result(False, key=f'C16:bound:exception:{type(e).__name__}', detail=f'delta={d_arg!r} ({type(d_arg).__name__}): {e!r}')
            if set(b) != set(cfg['names']) or len(b) != len(cfg['names']):
                return Result(False, key='C16:bound-keys', detail=f'bound keys {list(b)!r}')
            for f in cfg['names']:
                vf = float(var[f])
                # product of roots: the quotient under ONE root would overflow for subnormal delta although the bound is representable
                want = (1 - alpha) ** ex.seen_samples + math.sqrt(vf) * math.sqrt(alpha / (2 - alpha)) / math.sqrt(dl)
                g = b[f]
                if not (isinstance(g, (int, float, np.floating, Q)) and math.isfinite(float(g)) and float(g) >= 0
                        and (float(g) > 0 or want == 0)
                        and abs(float(g) - want) <= 1e-12 * max(abs(want), 1e-300) + 1e-300):
                    return Result(False, key='C16:bound-formula',
                                  detail=f'call {t + 1} delta={dl} feature {f!r}: bound {g!r}, formula gives {want!r} (var {vf!r}, alpha {alpha}, t {ex.seen_samples})')
            bounds[dl] = b
        ds = sorted(bounds)
        if ds and ds[0] < 1e-290:
            labels.append('subnormal_or_tiny_delta')
        for d1, d2 in zip(ds, ds[1:]):
            for f in cfg['names']:
                if float(bounds[d1][f]) < float(bounds[d2][f]):
                    return Result(False, key='C16:bound-monotone', detail=f'bound({d1}) < bound({d2}) for {f!r}')
        if len(ds) >= 2 and any(float(v) > 0 for v in var.values()):
            nt = True
        fl = [float(v) for v in iv.values()]
        if any(isinstance(v, np.generic) for v in iv.values()) and (math.fsum(fl) == 0 or max(fl) == min(fl)):
            nt = True
            labels.append('reached_zero_normaliser_numpy')
        if math.fsum(fl) < 0:
            labels.append('reached_negative_sum')
    return Result(True, nontrivial=nt, labels=sorted(set(labels)))


@st.composite
def dict_cases(draw):
    n = draw(st.integers(1, 5))
    keys = draw(st.lists(st.sampled_from(cfgs.STR_NAMES + cfgs.INT_NAMES[2:] + cfgs.FLT_NAMES), min_size=n, max_size=n, unique=True))
    shape = draw(st.sampled_from(['free', 'free', 'zeros', 'equal', 'zero_sum', 'zero_sum']))
    uniform_t = draw(st.sampled_from(sorted(TYPES) + ['mixed']))

    def typ():
        return draw(st.sampled_from(sorted(TYPES))) if uniform_t == 'mixed' else uniform_t
    vals = []
    if shape == 'zeros':
        vals = [[typ(), 0] for _ in range(n)]
    elif shape == 'equal':
        v = draw(st.integers(-5, 5))
        vals = [[typ(), v] for _ in range(n)]
    elif shape == 'zero_sum' and n >= 2:
        xs = [draw(st.integers(-6, 6)) for _ in range(n - 1)]
        xs.append(-sum(xs))
        vals = [[typ(), v] for v in xs]
    else:
        for _ in range(n):
            t = typ()
            v = draw(st.integers(-6, 6)) if t in ('int', 'i64') else draw(
                st.one_of(st.integers(-6, 6), st.sampled_from(['1/2', '-1/2', '3/4', '-5/4', '1/8'])))
            vals.append([t, v])
    # tiny and huge magnitudes: a normaliser of 1e-14 is small, not zero
    scale = draw(st.sampled_from([1, 1, 1e-14, 1e-9, 1e-30, 1e12, 1e-310, 5e-324, 1e30]))
    if scale < 1e-300:
        # subnormal doubles: single precision cannot hold them and exact rationals below the float range have no float twin - keep
        # the mixture within what the value types can represent (all-rational dictionaries stay exact)
        # (integers are not scaled: next to subnormal values the true quotient would leave the float range)
        vals = [['f64' if t in ('f32', 'i64') else ('float' if t == 'int' or (t == 'q' and uniform_t != 'q') else t), v] for t, v in vals]
    return {'keys': keys, 'values': vals, 'scale': scale}   # down to subnormal importances (a long quiet tail of a smoothed stream ends there)


@st.composite
def stream_cases(draw, tmax):
    cfg = draw(cfgs.config_st(tmax=tmax, dmax=4))
    cfg['cls'] = draw(st.sampled_from(['pfi', 'sage']))
    shape = draw(st.sampled_from(['any', 'any', 'ignore_all', 'constant']))
    if shape in ('ignore_all', 'constant'):
        for o in cfg['model']['outs']:
            o['w'] = [0] * (cfg['d'] + len(cfg.get('extra') or []))
            o['pair'] = None
            o['gate'] = None
    cfg['deltas'] = draw(st.lists(st.sampled_from(['1', '1/2', '1/10', '1/100', '1/1000000', '3/4', '1/1000000000000', '1e-300', '1e-310', '5e-324']),
                                  min_size=1, max_size=3, unique=True))
    return cfg


SUBS = {'dict': run_dict, 'stream': run_stream}


def replay(sub, case):
    return SUBS[sub](case)


def run(ctx):
    ctx.rule, ctx.assumptions = RULE, ASSUMPTIONS
    ctx.search('dict', dict_cases(), run_dict, ctx.n(1500, 96000))
    ctx.search('stream', stream_cases(30 if ctx.thorough() else 10), run_stream, ctx.n(700, 96000))
