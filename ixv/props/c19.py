"""C19 - TreeStorage reservoirs track current leaves; TreeImputer uses observed values (DESIGN 3, C19)."""
import copy
import math
import random

import numpy as np
from hypothesis import strategies as st

from ..core import Result
from .. import gen

LEVEL = 'exploration'
RULE = ("Streams of 120..500 points (thorough ..2500) with 1-2 categorical (numeric codes, as in the repository's tests) and 1-2 numeric "
        "features whose dependence structure switches at Hypothesis-chosen points (concept drift makes the Hoeffding adaptive trees "
        "split, swap and prune), max_depth 1..5, grace_period 2..30, reservoir length 1..5, explicit or default tree seed; values come "
        "from a PRNG seeded by the case. Invariant after EVERY update: len(storage) == updates; per feature #reservoirs <= #leaves "
        "reported by river's own iter_leaves(); every reservoir holds <= length points, each EQUAL to a previously observed "
        "complete x; staleness, format-independently: every point held in reservoir K still routes (river's branch_no/children walk) to "
        "a leaf whose library path id is K, points of one reservoir reach one leaf object and different reservoirs different leaf "
        "objects; the newest observation is contained in the reservoir its own routing id names. TreeImputer (both "
        "use_storage modes, direct_predict_numeric on/off, list/set/tuple subsets incl. empty and full, n_samples 1..3, instance drawn "
        "from the history; a freshly built imputer or a LONG-LIVED one that was already used before the trees were restructured) at Hypothesis-chosen checkpoints: inputs agree with x outside the subset; with use_storage and a reservoir "
        "for the routed leaf every imputed value is the value that feature has in a point of THAT reservoir (otherwise any finite value); "
        "without storage categorical values are classes observed for that feature, numeric values finite; n_samples predictions; x and "
        "all reservoirs unchanged. LONG: two plain runs of ~1100 updates (thorough: up to 5000) with len() checked after every update and the reservoir invariants every 97. Non-trivial: the leaf set of some feature changed at least twice and some tree has >= 3 leaves; "
        "distinct by case digest.")
ASSUMPTIONS = ["river 0.26.1 tree node API (children, branch_no, iter_leaves) is used as the independent router",
               "streams with missing features (the KeyError branch of the tree walk) are outside the quantifier and not generated"]


def leaf_of(root, x):
    node = root
    while hasattr(node, 'children'):
        node = node.children[node.branch_no(x)]
    return node


def n_leaves(root):
    if hasattr(root, 'iter_leaves'):
        return sum(1 for _ in root.iter_leaves())
    return 1


def make_stream(case):
    rs = random.Random(case['stream_seed'])
    cats = [f'c{i}' for i in range(case['n_cat'])]
    nums = [f'n{i}' for i in range(case['n_num'])]
    switches = sorted(case['switches'])
    rows = []
    concept = 0
    for t in range(case['T']):
        while switches and t >= switches[0]:
            switches.pop(0)
            concept += 1
        x = {}
        base = rs.choice([1.0, 2.0, 3.0, 4.0])
        u = rs.uniform(-1, 1)
        for i, c in enumerate(cats):
            if i == 0:
                x[c] = base
            else:
                x[c] = float(int(base > 2)) if concept % 2 == 0 else float(rs.choice([0, 1]))
        for i, n in enumerate(nums):
            if concept % 3 == 0:
                v = 10.0 * base + u
            elif concept % 3 == 1:
                v = -5.0 * base + 3 * u + (20.0 if i else 0.0)
            else:
                v = 100.0 * (1 if u > 0 else -1) + u
            x[n] = round(v + rs.gauss(0, 0.1), 4)
        rows.append(x)
    return cats, nums, rows


def check_storage(storage, feature_names, seen_ids, n_updates, newest, length, state):
    from ixai.storage import TreeStorage
    if len(storage) != n_updates:
        return 'C19:len', f'len(storage)={len(storage)} after {n_updates} updates'
    for f in feature_names:
        tree = storage._storage_x[f] if hasattr(storage, '_storage_x') else storage(f)[0]
        root = tree._root
        res = storage.data_reservoirs[f]
        nl = n_leaves(root)
        state['max_leaves'] = max(state['max_leaves'], nl)
        if len(res) > nl:
            return 'C19:more-reservoirs-than-leaves', f'feature {f!r}: {len(res)} reservoirs but the current tree has {nl} leaves (update {n_updates})'
        leaf_to_key = {}
        for key, r in res.items():
            pts = list(r.get_data()[0])
            if len(pts) > length:
                return 'C19:reservoir-too-large', f'feature {f!r}: a reservoir holds {len(pts)} > {length} points'
            if len(r.get_data()[1]) != 0:
                return 'C19:reservoir-targets', 'leaf reservoirs must not keep targets'
            for p in pts:
                if set(p) != set(feature_names) or (id(p) not in seen_ids and tuple(sorted(p.items())) not in state['seen_rows']):
                    return 'C19:not-an-observed-point', f'feature {f!r}: reservoir holds {p!r}, which is no previously observed complete data point'
                sub = {k: v for k, v in p.items() if k != f}
                leaf = leaf_of(root, sub)
                k2 = TreeStorage.get_path_through_tree(root, sub)
                if k2 != key:
                    return 'C19:stale-reservoir', (f'feature {f!r} after update {n_updates}: a point held under leaf id {key!r} now routes to '
                                                   f'{k2!r}: the reservoir does not belong to a leaf of the current tree')
                if leaf_to_key.setdefault(id(leaf), key) != key:
                    return 'C19:two-reservoirs-one-leaf', f'feature {f!r}: two reservoirs reach the same leaf object'
        sub = {k: v for k, v in newest.items() if k != f}
        key = TreeStorage.get_path_through_tree(root, sub)
        r = res.get(key)
        if r is None or not any(p is newest or p == newest for p in r.get_data()[0]):
            return 'C19:newest-missing', f'feature {f!r} after update {n_updates}: the newest observation is not in the reservoir of the leaf it is routed to'
        keys = frozenset(res)
        if state['last_keys'].get(f) is not None and keys != state['last_keys'][f]:
            state['changes'][f] = state['changes'].get(f, 0) + 1
        state['last_keys'][f] = keys
    return None


def check_imputer(storage, feature_names, cats, nums, rows_seen, spec, observed, pool=None):
    from ixai.imputer import TreeImputer
    from ixai.storage import TreeStorage
    reuse = pool is not None and spec.get('reuse')
    pkey = (spec['use_storage'], spec['direct'])
    if reuse and pkey in pool:
        # a LONG-LIVED imputer: built at an earlier checkpoint and used again after the trees have been restructured in between
        imp, calls = pool[pkey]
        del calls[:]
    else:
        calls = []

        def model(x):
            calls.append(dict(x))
            return {'output': float(sum(v for v in x.values()))}
        imp = TreeImputer(model, storage_object=storage, use_storage=spec['use_storage'], direct_predict_numeric=spec['direct'])
        if reuse:
            pool[pkey] = (imp, calls)
    x = rows_seen[spec['row'] % len(rows_seen)]
    if spec.get('synthetic'):
        # a point composed feature-wise from different observed rows: it may be routed to a leaf that has no data point yet
        x = {f: rows_seen[(spec['row'] * (i + 3) + 7 * i) % len(rows_seen)][f] for i, f in enumerate(feature_names)}
    x_before = dict(x)
    sub = [feature_names[i] for i in spec['subset'] if i < len(feature_names)]
    subset = {'list': list, 'tuple': tuple, 'set': set}[spec['subset_type']](sub)
    snap = {f: {k: [id(p) for p in r.get_data()[0]] for k, r in storage.data_reservoirs[f].items()} for f in feature_names}
    n = spec['n_samples']
    try:
        preds = imp.impute(subset, x, n_samples=n)
    except Exception as e:
        return f'C19:imputer:exception:{type(e).__name__}', f'impute({sub!r}) raised {e!r} (use_storage={spec["use_storage"]}, direct={spec["direct"]})'
    if x != x_before:
        return 'C19:imputer:instance-modified', 'x_i was modified'
    snap2 = {f: {k: [id(p) for p in r.get_data()[0]] for k, r in storage.data_reservoirs[f].items()} for f in feature_names}
    if snap != snap2:
        return 'C19:imputer:storage-modified', 'reservoirs changed during impute'
    if not isinstance(preds, list) or len(preds) != n or len(calls) != n:
        return 'C19:imputer:prediction-count', f'{len(preds)} predictions / {len(calls)} model calls for n_samples={n}'
    for inp, p in zip(calls, preds):
        if p != {'output': float(sum(v for v in inp.values()))}:
            return 'C19:imputer:prediction-mismatch', 'a returned prediction is not the model output of the recorded input'
        if set(inp) != set(x):
            return 'C19:imputer:input-keys', f'{list(inp)!r}'
        for f in feature_names:
            if f not in sub:
                if inp[f] != x[f]:
                    return 'C19:imputer:outside-subset-changed', f'feature {f!r} not requested but changed from {x[f]!r} to {inp[f]!r}'
                continue
            v = inp[f]
            if not isinstance(v, (int, float, np.floating, np.integer)) or not math.isfinite(float(v)):
                return 'C19:imputer:not-finite', f'feature {f!r} imputed with {v!r}'
            if spec['use_storage']:
                root = storage._storage_x[f]._root
                key = TreeStorage.get_path_through_tree(root, x)
                r = storage.data_reservoirs[f].get(key)
                if r is not None:
                    allowed = [pt[f] for pt in r.get_data()[0]]
                    if not any(v == a for a in allowed):
                        return ('C19:imputer:not-from-leaf-reservoir',
                                f'feature {f!r}: imputed {v!r}, the reservoir of the routed leaf holds {allowed!r}')
            elif f in cats:
                if not any(v == o for o in observed[f]):
                    return 'C19:imputer:unobserved-class', f'categorical feature {f!r} imputed with {v!r}, observed classes {sorted(observed[f])!r}'
    return None


def run_case(case):
    from ixai.storage import TreeStorage
    cats, nums, rows = make_stream(case)
    names = cats + nums
    kw = {} if case.get('tree_seed') is None else {'seed': case['tree_seed']}
    random.seed(case['seeds'][0])
    np.random.seed(case['seeds'][1])
    storage = TreeStorage(cat_feature_names=list(cats), num_feature_names=list(nums), max_depth=case['max_depth'],
                          leaf_reservoir_length=case['length'], grace_period=case['grace'], **kw)
    seen_ids = set()
    keep = []
    observed = {f: set() for f in names}
    state = {'max_leaves': 0, 'last_keys': {}, 'changes': {}, 'seen_rows': set()}
    checkpoints = {c['at']: c for c in case['imputer_checks']}
    pool = {}
    for t, x in enumerate(rows, start=1):
        keep.append(x)
        seen_ids.add(id(x))
        state['seen_rows'].add(tuple(sorted(x.items())))
        for f in names:
            observed[f].add(x[f])
        try:
            storage.update(x)
        except Exception as e:
            return Result(False, key=f'C19:update:exception:{type(e).__name__}', detail=f'update {t}: {e!r}')
        err = check_storage(storage, names, seen_ids, t, x, case['length'], state)
        if err:
            return Result(False, key=err[0], detail=err[1])
        c = checkpoints.get(t)
        if c is not None and t >= 5:
            err = check_imputer(storage, names, cats, nums, keep, c, observed, pool)
            if err:
                return Result(False, key=err[0], detail=f'checkpoint after update {t}: {err[1]}')
    changes = max(state['changes'].values()) if state['changes'] else 0
    nt = changes >= 2 and state['max_leaves'] >= 3
    labels = [f"max_leaves={min(state['max_leaves'], 8)}", f'leafset_changes>={min(changes, 5)}', f"depth={case['max_depth']}"]
    return Result(True, nontrivial=nt, labels=labels)


@st.composite
def cases(draw, tmax):
    def rev(lo, hi):
        return hi - draw(st.integers(0, hi - lo))
    T = rev(120, tmax)
    n_sw = draw(st.integers(1, 4))
    switches = sorted(draw(st.lists(st.integers(20, T - 10), min_size=n_sw, max_size=n_sw, unique=True)))
    checks = []
    # checkpoints cluster right after the concept switches (that is when leaves are young and may still be empty)
    ats = [min(T, sw + off) for sw in switches for off in (1, 2, 3, 5, 8, 13, 21)] + [draw(st.integers(5, T)) for _ in range(6)]
    for at in ats:
        checks.append({'at': at, 'use_storage': draw(st.sampled_from([True, True, False])), 'direct': draw(st.booleans()),
                       'row': draw(st.integers(0, 10 ** 4)), 'synthetic': draw(st.booleans()),
                       'subset': draw(st.lists(st.integers(0, 3), unique=True, max_size=4)),
                       'subset_type': draw(st.sampled_from(['list', 'set', 'tuple'])), 'n_samples': draw(st.integers(1, 3)),
                       'reuse': draw(st.booleans())})
    return {'T': T, 'n_cat': rev(1, 2), 'n_num': rev(1, 2), 'switches': switches, 'stream_seed': draw(st.integers(0, 10 ** 6)),
            'max_depth': rev(1, 5), 'grace': draw(st.sampled_from([5, 2, 10, 30])), 'length': draw(st.integers(1, 5)),
            'tree_seed': draw(st.sampled_from([3, None, 42])), 'seeds': [draw(gen.seed32) % 2 ** 31, draw(gen.seed32) % 2 ** 31],
            'imputer_checks': checks}


def run_long(case):
    """A stream well beyond a thousand updates (rolling windows, counters that saturate): len() == number of updates after EVERY
    update, the full reservoir invariants every 97 updates."""
    from ixai.storage import TreeStorage
    cats, nums, rows = make_stream(case)
    names = cats + nums
    random.seed(case['seeds'][0])
    np.random.seed(case['seeds'][1])
    storage = TreeStorage(cat_feature_names=list(cats), num_feature_names=list(nums), max_depth=case['max_depth'],
                          leaf_reservoir_length=case['length'], grace_period=case['grace'], seed=case['tree_seed'])
    seen_ids = set()
    state = {'max_leaves': 0, 'last_keys': {}, 'changes': {}, 'seen_rows': set()}
    for t, x in enumerate(rows, start=1):
        seen_ids.add(id(x))
        state['seen_rows'].add(tuple(sorted(x.items())))
        try:
            storage.update(x)
        except Exception as e:
            return Result(False, key=f'C19:update:exception:{type(e).__name__}', detail=f'update {t}: {e!r}')
        if len(storage) != t:
            return Result(False, key='C19:len', detail=f'after {t} updates len(storage) = {len(storage)}')
        if t % 97 == 0 or t == len(rows):
            err = check_storage(storage, names, seen_ids, t, x, case['length'], state)
            if err:
                return Result(False, key=err[0], detail=err[1])
    return Result(True, nontrivial=len(rows) > 1000 and state['max_leaves'] >= 2, labels=['long', f"max_leaves={min(state['max_leaves'], 8)}"])


@st.composite
def long_cases(draw, tmax):
    T = tmax - draw(st.integers(0, 40))
    switches = sorted(draw(st.lists(st.integers(20, T - 10), min_size=2, max_size=2, unique=True)))
    return {'T': T, 'n_cat': 1, 'n_num': draw(st.integers(1, 2)), 'switches': switches, 'stream_seed': draw(st.integers(0, 10 ** 6)),
            'max_depth': draw(st.integers(2, 4)), 'grace': draw(st.sampled_from([30, 100, 200])), 'length': draw(st.integers(1, 5)),
            'tree_seed': draw(st.sampled_from([3, 42])), 'seeds': [draw(gen.seed32) % 2 ** 31, draw(gen.seed32) % 2 ** 31],
            'imputer_checks': []}


SUBS = {'stream': run_case, 'long': run_long}


def replay(sub, case):
    return SUBS.get(sub, run_case)(case)


def run(ctx):
    ctx.rule, ctx.assumptions = RULE, ASSUMPTIONS
    if not ctx.search('stream', cases(2500 if ctx.thorough() else 400), run_case, ctx.n(70, 3200), shrink=ctx.thorough()):
        return
    ctx.search('long', long_cases(1100 if not ctx.thorough() else 5000), run_long, ctx.n(2, 32), shrink=False)
