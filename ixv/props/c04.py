"""C04 - PFI/SAGE updates are unbiased: uniform feature orders and background rows (DESIGN 3, C04)."""
import copy
import itertools
import math
import random
from fractions import Fraction

import numpy as np
from hypothesis import strategies as st

from ..core import Result
from ..exact import Q
from ..doubles import Model, Loss, num
from .. import cfgs, gen, ref, refx, rng, stats

LEVEL = 'exploration'
RULE = ("Layer 1 (exact): for a frozen explainer state (storage of m<=4 DISTINCT rows, d<=3, n_inner<=2, smoothing alpha = 1 so that "
        "importance_values after the call IS the contribution) EVERY outcome of np.random.permutation x every randrange/randint outcome "
        "is enumerated (choice points with exact rational probabilities), explain_one runs once per leaf on a deep copy, and "
        "sum(probability x contribution) must EQUAL the reference: SAGE - Shapley value of the game v(0)=loss(y, marginal prediction), "
        "v(S)=E[loss(y, mean of n_inner outputs with the complement of S imputed)] under uniform rows (one row per inner sample for "
        "joint, an independent row per feature for product); PFI - E[loss with f resampled] - loss; BatchSage both modes and IntervalSage "
        "at d<=2, n_data<=3 (original mode: rows uniform over the WHOLE data set for every explained observation). Layer 2 "
        "(Monte-Carlo, exact binomial tails, two stages): over N repeated explain_one(update_storage=False) calls on one state with "
        "rows whose values identify (row, feature): order frequencies vs 1/d!, background row per (chain position, feature) vs 1/m, "
        "joint: all imputed features of one model call from one row (deterministic), product: row pairs of two features vs 1/m^2, row "
        "pairs of two inner samples vs 1/m^2. Layer 3: mean of sampled contributions vs the exhaustive value (Hoeffding, exact range) "
        "on states too large to enumerate (d=4, m=5). Non-trivial: the game separates features AND a canonical biased sampler (omit the "
        "last row / fixed order) shifts the exact expectation; distinct by case digest.")
ASSUMPTIONS = ["uniformity of CPython randrange/randint and NumPy permutation (trusted base of the enumeration)",
               "Monte-Carlo layers: deviations below the minimal detectable effect pass"]


# ------------------------------------------------------------------------------------------------
# reference expectations
# ------------------------------------------------------------------------------------------------

def bg_outcomes(strategy, rows, comp, n_inner, row_probs):
    """All background assignments for one imputer call: yields (prob, [ {feature: value} per inner sample ])."""
    m = len(rows)
    if not comp:
        yield Fraction(1), [{} for _ in range(n_inner)]
        return
    if strategy == 'joint':
        per_sample = [(row_probs[r], {f: rows[r][f] for f in comp}) for r in range(m) if row_probs[r]]
    else:
        per_sample = []
        for choice in itertools.product(range(m), repeat=len(comp)):
            p = Fraction(1)
            for r in choice:
                p *= row_probs[r]
            if p:
                per_sample.append((p, {f: rows[r][f] for f, r in zip(comp, choice)}))
    for combo in itertools.product(per_sample, repeat=n_inner):
        p = Fraction(1)
        for pr, _ in combo:
            p *= pr
        yield p, [vals for _, vals in combo]


def expected_loss(model, loss, x, y, names, S, rows, strategy, n_inner, row_probs):
    comp = [f for f in names if f not in S]
    tot = Q(0)
    lo = hi = None
    for p, samples in bg_outcomes(strategy, rows, comp, n_inner, row_probs):
        outs = [model.pure({**x, **vals}) for vals in samples]
        L = loss(y, ref.mean_output(outs))
        tot = tot + p * L
        lo = L if lo is None or L < lo else lo
        hi = L if hi is None or L > hi else hi
    return tot, lo, hi


def sage_expectation(model, loss, x, y, names, rows, strategy, n_inner, L0, row_probs=None, fixed_order=False):
    m = len(rows)
    row_probs = row_probs or [Fraction(1, m)] * m
    d = len(names)
    v = {}
    lo_all, hi_all = L0, L0
    for r in range(1, d + 1):
        for S in itertools.combinations(range(d), r):
            e, lo, hi = expected_loss(model, loss, x, y, names, [names[i] for i in S], rows, strategy, n_inner, row_probs)
            v[frozenset(S)] = e
            lo_all, hi_all = min(lo_all, lo), max(hi_all, hi)
    v[frozenset()] = L0
    if fixed_order:
        out = [Q(0)] * d
        S = frozenset()
        for f in range(d):
            out[f] = v[S] - v[S | {f}]
            S = S | {f}
        return {names[i]: out[i] for i in range(d)}, (lo_all, hi_all)
    sh = ref.shapley(d, lambda S: v[frozenset(S)])
    return {names[i]: sh[i] for i in range(d)}, (lo_all, hi_all)


def pfi_expectation(model, loss, x, y, names, rows, row_probs=None):
    m = len(rows)
    row_probs = row_probs or [Fraction(1, m)] * m
    base = loss(y, model.pure(x))
    out = {}
    for f in names:
        e = Q(0)
        for r in range(m):
            e = e + row_probs[r] * loss(y, model.pure({**x, f: rows[r][f]}))
        out[f] = e - base
    return out


# ------------------------------------------------------------------------------------------------
# layer 1: exact enumeration for the incremental explainers
# ------------------------------------------------------------------------------------------------

def build_state(case, mode='exact'):
    cfg = dict(case['cfg'], mode=mode, dynamic=True, alpha='1')
    h = cfgs.Harness(cfg, record_imputer=False)
    ex = h.pfi() if case['cls'] == 'pfi' else h.sage()
    rows = []
    perms = case.get('row_perms') or []
    opts = case.get('row_opts') or []
    for j, r in enumerate(case['rows']):
        x, y = h.row({'x': r, 'y': 0, 'perm': perms[j] if j < len(perms) else 0, 'opt': opts[j] if j < len(opts) else None})
        rows.append(x)
        if j == 0 or case.get('warm', True):
            # the realistic explain-then-update loop: the imputer has been used while the storage kept changing
            ex.explain_one(x, y)
        else:
            ex.update_storage(x, y)
    x, y = h.row({'x': case['x'], 'y': case['y'], 'perm': case.get('x_perm') or 0, 'opt': case.get('x_opt')})
    return h, ex, rows, x, y


def run_enum_incremental(case):
    random.seed(1), np.random.seed(1)
    try:
        h, ex, rows, x, y = build_state(case)
    except TypeError as e:
        # float-only (NumPy) functions applied to losses: no exact enumeration for this implementation (the Monte-Carlo layers run in floats)
        return Result(True, nontrivial=False, labels=['exact_arithmetic_unsupported'], detail=str(e))
    except Exception as e:
        return Result(False, key=f'C04:setup:{type(e).__name__}', detail=repr(e))
    stored = list(h.storage.get_data()[0])
    names = h.names
    n_inner = case['cfg']['n_inner']
    strategy = case['cfg']['imputer']['strategy']
    model_ref = Model(case['cfg']['model'], names, 'exact', record=False)
    loss_ref = Loss(case['cfg']['loss'], 'exact').pure

    def one():
        e2 = copy.deepcopy(ex)
        e2.explain_one(x, y, update_storage=False)
        return {refx.norm_key(k): v for k, v in e2.importance_values.items()}

    exp = {n: Q(0) for n in names}
    leaves = 0
    lossy = False     # the library handed out floats although it was fed exact rationals (e.g. int / int for bool-valued losses)
    try:
        for p, contrib, _path in rng.enumerate_runs(one, max_leaves=case.get('max_leaves', MAX_LEAVES['n']), early=True):
            leaves += 1
            for n in names:
                exp[n] = exp[n] + p * contrib[n]
                lossy = lossy or isinstance(contrib[n], (float, np.floating))
    except rng.NotEnumerable as e:
        return Result(True, nontrivial=False, labels=['not_enumerable'], detail=str(e))
    except TypeError as e:
        return Result(True, nontrivial=False, labels=['exact_arithmetic_unsupported'], detail=str(e))
    if case['cls'] == 'pfi':
        want = pfi_expectation(model_ref, loss_ref, x, y, names, stored)
        biased = pfi_expectation(model_ref, loss_ref, x, y, names, stored,
                                 [Fraction(1, len(stored) - 1)] * (len(stored) - 1) + [Fraction(0)]) if len(stored) > 1 else want
        fixed = want
    else:
        pred = model_ref.pure(x)
        mp = ref.MultiStat(True, Q(1))
        if case.get('warm', True):
            for r in rows[1:]:          # label history of the explained warm-up calls (alpha = 1: values forgotten, labels kept)
                mp.add(model_ref.pure(r))
        mp.add(pred)
        L0 = loss_ref(y, mp.normalized())
        want, _ = sage_expectation(model_ref, loss_ref, x, y, names, stored, strategy, n_inner, L0)
        m = len(stored)
        biased = sage_expectation(model_ref, loss_ref, x, y, names, stored, strategy, n_inner, L0,
                                  [Fraction(1, m - 1)] * (m - 1) + [Fraction(0)])[0] if m > 1 else want
        fixed = sage_expectation(model_ref, loss_ref, x, y, names, stored, strategy, n_inner, L0, fixed_order=True)[0]
    for n in names:
        if _differs(exp[n], want[n], lossy):
            return Result(False, key=f"C04:{case['cls']}:{strategy}:expectation",
                          detail=(f'feature {n!r}: exact expectation of the library estimator over {leaves} outcomes is {exp[n]!r}, the '
                                  f'exhaustive reference ({"Shapley value" if case["cls"] == "sage" else "resampled loss increase"}) is {want[n]!r}'))
    separates = len(set(want.values())) > 1
    power = any(biased[n] != want[n] for n in names) or any(fixed[n] != want[n] for n in names)
    res = Result(True, nontrivial=separates and power, labels=[case['cls'], strategy, f'leaves<={10 ** len(str(leaves))}'])
    res.detail = {'leaves': leaves}
    return res


# ------------------------------------------------------------------------------------------------
# layer 1: BatchSage / IntervalSage
# ------------------------------------------------------------------------------------------------

def run_enum_batch(case):
    from ixai.explainer.sage import BatchSage, IntervalSage
    names = list(case['names'])
    d = len(names)
    model = Model(case['model'], names, 'exact', record=False)
    loss_d = Loss(case['loss'], 'exact')
    loss_ref = loss_d.pure
    xs = [{n: num(v, 'exact') for n, v in zip(names, r['x'])} for r in case['rows']]
    ys = [num(r['y'], 'exact') for r in case['rows']]
    n_inner = case['n_inner']
    how = case['how']

    def one():
        if how == 'interval':
            ex = IntervalSage(model, names, loss_d, n_inner_samples=n_inner, interval_length=len(xs), storage_length=len(xs))
            out = None
            for x, y in zip(xs, ys):
                out = ex.explain_one(x, y, verbose=False)
            return dict(out)
        variant = case.get('original_variant')
        if how == 'original' and variant == 'product_imputer':
            # original mode must draw ONE row of the data set for all absent features, whatever imputer the explainer was built with
            from ixai.storage import BatchStorage
            from ixai.imputer import MarginalImputer
            storage = BatchStorage(store_targets=True)
            ex = BatchSage(model, names, loss_d, n_inner_samples=n_inner, storage=storage,
                           imputer=MarginalImputer(model, 'product', storage))
        else:
            ex = BatchSage(model, names, loss_d, n_inner_samples=n_inner)
        if how == 'original' and variant == 'other_storage_content':
            # explain_many_original(x_data, y_data) called directly: the background is the DATA SET, not what the storage happens to hold
            for x, y in zip(xs, ys):
                ex.update_storage({k: v + 10 for k, v in x.items()}, y)
        else:
            for x, y in zip(xs, ys):
                ex.update_storage(x, y)
        if how == 'many':
            return dict(ex.explain_many(list(xs), list(ys), verbose=False))
        return dict(ex.explain_many_original(list(xs), list(ys), verbose=False))

    exp = {n: Q(0) for n in names}
    leaves = 0
    lossy = False     # the library handed out floats although it was fed exact rationals (e.g. int / int for bool-valued losses)
    try:
        for p, vals, _path in rng.enumerate_runs(one, max_leaves=case.get('max_leaves', MAX_LEAVES['n']), early=True):
            leaves += 1
            for n in names:
                exp[n] = exp[n] + p * vals[n]
                lossy = lossy or isinstance(vals[n], (float, np.floating))
    except rng.NotEnumerable as e:
        return Result(True, nontrivial=False, labels=['not_enumerable'], detail=str(e))
    except TypeError as e:
        return Result(True, nontrivial=False, labels=['exact_arithmetic_unsupported'], detail=str(e))
    preds = [model.pure(x) for x in xs]
    mp = ref.mean_output(preds)
    want = {n: Q(0) for n in names}
    biased = {n: Q(0) for n in names}
    nrows = len(xs)
    for i, (x, y) in enumerate(zip(xs, ys)):
        L0 = loss_ref(y, mp)
        sh, _ = sage_expectation(model, loss_ref, x, y, names, xs, 'joint', n_inner, L0)
        # canonical biased sampler: prefix-only rows (rows < i; row 0 for the first observation)
        k = max(i, 1)
        bs, _ = sage_expectation(model, loss_ref, x, y, names, xs, 'joint', n_inner, L0,
                                 [Fraction(1, k)] * k + [Fraction(0)] * (nrows - k))
        for n in names:
            want[n] = want[n] + sh[n] / nrows
            biased[n] = biased[n] + bs[n] / nrows
    for n in names:
        if _differs(exp[n], want[n], lossy):
            extra = ''
            if how == 'original' and all(exp[m_] == biased[m_] for m_ in names):
                extra = ' - it equals the expectation under background rows drawn only from the observations BEFORE the explained one'
            return Result(False, key=f'C04:batch:{how}:expectation',
                          detail=(f'feature {n!r}: exact expectation of the returned value over {leaves} outcomes is {exp[n]!r}, the '
                                  f'average Shapley value under uniform rows of the whole data set is {want[n]!r}{extra}'))
    separates = len(set(want.values())) > 1
    power = any(biased[n] != want[n] for n in names)
    res = Result(True, nontrivial=separates and power and nrows >= 2, labels=[how, f'n={nrows}', f'd={d}'])
    res.detail = {'leaves': leaves}
    return res


# ------------------------------------------------------------------------------------------------
# layer 2: distribution of the draws themselves
# ------------------------------------------------------------------------------------------------

def _tagged_state(cls, d, m, n_inner, strategy, seed):
    """Rows whose values identify (row, feature): value = 100*row + feature index; x uses negative values."""
    names = cfgs.STR_NAMES[:d]
    cfg = {'d': d, 'names': names, 'dynamic': True, 'alpha': '1', 'n_inner': n_inner,
           'storage': {'cls': 'batch', 'k': m}, 'imputer': {'kind': 'marginal', 'strategy': strategy},
           'model': {'outs': [{'label': 'output', 'b': 0, 'w': [1] * d, 'pair': None, 'gate': None}]},
           'loss': {'kind': 'sq', 'c': [0, 0, 0, 0]}, 'lbib': False, 'seeds': [seed, seed], 'mode': 'float', 'stream': []}
    case = {'cls': cls, 'cfg': cfg, 'rows': [[100 * (r + 1) + f for f in range(d)] for r in range(m)],
            'x': [-(f + 1) for f in range(d)], 'y': 0}
    return case


def mc_draws(ctx, cls, d, m, n_inner, strategy, N):
    """Returns (ok, key, detail, info)."""
    case = _tagged_state(cls, d, m, n_inner, strategy, 7)
    tag = f'{cls}:{strategy}:d{d}:m{m}:i{n_inner}'
    names = case['cfg']['names']

    def observe(nruns, stage):
        random.seed(ctx.seed_for(f'c04:{tag}:{stage}:py'))
        np.random.seed(ctx.seed_for(f'c04:{tag}:{stage}:np') % (2 ** 32))
        h, ex, rows, x, y = build_state(case, mode='float')
        orders, rowcells, pairs_feat, pairs_inner = {}, {}, {}, {}
        joint_bad = None
        for _ in range(nruns):
            mark = len(h.model.calls)
            ex.explain_one(x, y, update_storage=False)
            calls = h.model.calls[mark + 1:] if cls == 'sage' else h.model.calls[mark + 1:]
            # decode every imputed value into (row, feature)
            dec = []
            for inp, _ids, _out in calls:
                rowmap = {}
                for f_i, n in enumerate(names):
                    v = inp[n]
                    if v >= 100:
                        rowmap[n] = int(v) // 100 - 1
                dec.append(rowmap)
            if cls == 'sage':
                # chain position k (1..d) has n_inner calls; the complement shrinks by one per position
                order = []
                prev = set(names)
                for k in range(d):
                    cur = set(dec[k * n_inner])
                    order.append(next(iter(prev - cur)))
                    prev = cur
                    for s in range(n_inner):
                        rm = dec[k * n_inner + s]
                        if s == 0:   # one Bernoulli observation per call and cell (inner samples of one call share the coalition)
                            for n, r in rm.items():
                                rowcells[(k, n, r)] = rowcells.get((k, n, r), 0) + 1
                        if strategy == 'joint' and len(set(rm.values())) > 1:
                            joint_bad = rm
                        if strategy == 'product' and k == 0 and len(rm) >= 2:
                            a, b = sorted(rm)[:2]
                            pairs_feat[(rm[a], rm[b])] = pairs_feat.get((rm[a], rm[b]), 0) + 1
                    if n_inner >= 2 and k == 0:
                        r0 = dec[0]
                        r1 = dec[1]
                        f0 = sorted(r0)[0]
                        pairs_inner[(r0[f0], r1[f0])] = pairs_inner.get((r0[f0], r1[f0]), 0) + 1
                orders[tuple(order)] = orders.get(tuple(order), 0) + 1
            else:
                for fi, n in enumerate(names):
                    r = dec[fi * n_inner].get(n)
                    rowcells[(0, n, r)] = rowcells.get((0, n, r), 0) + 1
                    if n_inner >= 2:
                        a, b = dec[fi * n_inner].get(n), dec[fi * n_inner + 1].get(n)
                        if fi == 0:
                            pairs_inner[(a, b)] = pairs_inner.get((a, b), 0) + 1
        ctx.count(nruns, label=f'mc_calls:{tag}')
        return orders, rowcells, pairs_feat, pairs_inner, joint_bad

    cache = {}

    def sampler(which):
        def s(nruns, stage):
            if (nruns, stage) not in cache:
                cache[(nruns, stage)] = observe(nruns, stage)
            return cache[(nruns, stage)][which]
        return s

    info = {}
    o = observe(N, 1)
    cache[(N, 1)] = o
    if o[4] is not None:
        return False, f'C04:{cls}:joint:rows-mixed', f'joint strategy imputed features of one model call from different rows: {o[4]}', info
    checks = []
    if cls == 'sage':
        probs = {p: 1.0 / math.factorial(d) for p in itertools.permutations(names)}
        checks.append(('order', probs, 0, 1))
        for k in range(d - 1):
            for n in names:
                # feature n is imputed at position k iff it was not among the first k+1 revealed: probability (d-k-1)/d, then row uniform
                probs = {(k, n, r): (d - k - 1) / d / m for r in range(m)}
                checks.append((f'row@pos{k}:{n}', probs, 1, n_inner))
        if strategy == 'product' and d >= 3:
            # the two alphabetically first imputed features at position 0: condition on both imputed... use all cells jointly
            pass
    else:
        for n in names:
            probs = {(0, n, r): 1.0 / m for r in range(m)}
            checks.append((f'row:{n}', probs, 1, n_inner))
    if n_inner >= 2:
        probs = {(a, b): 1.0 / (m * m) for a in range(m) for b in range(m)}
        checks.append(('inner-pair', probs, 3, 1))
    for name, probs, which, mult in checks:
        def samp(nruns, stage, which=which, probs=probs):
            full = sampler(which)(nruns, stage)
            return {c: full.get(c, 0) for c in set(probs) | {c for c in full if _same_family(c, probs)}}
        ok, inf = stats.TwoStage(f'{tag}:{name}', probs).decide(lambda nr, stg: samp(nr, stg), N)
        # counts of row cells are out of N*mult draws; TwoStage uses n = N: rescale by passing probabilities * mult
        info[name] = inf.get('stage1_p')
        if not ok:
            return False, f'C04:{cls}:{strategy}:draws:{name.split(":")[0].split("@")[0]}', \
                (f'{tag} {name}: cell {inf.get("cell")} observed {inf.get("observed")}, expected {inf.get("expected")} '
                 f'(stage-2 p {inf.get("stage2_p")})'), info
    return True, None, None, info


def _same_family(c, probs):
    k0 = next(iter(probs))
    if isinstance(c, tuple) and isinstance(k0, tuple) and len(c) == len(k0):
        if len(c) == 3:
            return c[0] == k0[0] and c[1] == k0[1]
        return True
    return False


# ------------------------------------------------------------------------------------------------
# layer 3: sampled mean vs exhaustive value (Hoeffding)
# ------------------------------------------------------------------------------------------------

def mc_mean(ctx, case, N):
    cls = case['cls']
    strategy = case['cfg']['imputer']['strategy']
    random.seed(ctx.seed_for('c04:mean:py:' + cls + strategy))
    np.random.seed(ctx.seed_for('c04:mean:np:' + cls + strategy) % (2 ** 32))
    h, ex, rows, x, y = build_state(case, mode='float')
    names = h.names
    model_ref = Model(case['cfg']['model'], names, 'exact', record=False)
    loss_ref = Loss(case['cfg']['loss'], 'exact').pure
    xq, yq = refx.lift_dict(x), refx.lift(y)
    stored = [refx.lift_dict(r) for r in h.storage.get_data()[0]]
    if cls == 'pfi':
        want = pfi_expectation(model_ref, loss_ref, xq, yq, names, stored)
        vals = [loss_ref(yq, model_ref.pure({**xq, f: r[f]})) for f in names for r in stored] + [loss_ref(yq, model_ref.pure(xq))]
        rng_ = float(max(vals) - min(vals)) * 2
    else:
        mp = ref.MultiStat(True, Q(1))
        mp.add(model_ref.pure(xq))
        L0 = loss_ref(yq, mp.normalized())
        want, (lo, hi) = sage_expectation(model_ref, loss_ref, xq, yq, names, stored, strategy, case['cfg']['n_inner'], L0)
        rng_ = float(hi - lo) * 2
    sums = {n: 0.0 for n in names}
    for _ in range(N):
        e2 = ex
        e2.explain_one(x, y, update_storage=False)
        iv = e2.importance_values
        for k, v in iv.items():
            sums[refx.norm_key(k)] += float(v)
    ctx.count(N, label=f'mc_mean_calls:{cls}:{strategy}')
    bound = stats.hoeffding_bound(N, rng_, stats.DELTA1 / len(names)) + 1e-9 * (1 + rng_)
    for n in names:
        if abs(sums[n] / N - float(want[n])) > bound:
            return False, (f'{cls}/{strategy}: mean of {N} sampled contributions of {n!r} is {sums[n] / N}, exhaustive value '
                           f'{float(want[n])} (Hoeffding bound {bound})')
    return True, {'bound': bound, 'range': rng_}


# ------------------------------------------------------------------------------------------------

@st.composite
def inc_cases(draw):
    cls = draw(st.sampled_from(['sage', 'sage', 'pfi']))
    strategy = draw(st.sampled_from(['joint', 'product']))
    if cls == 'pfi':
        d = draw(st.integers(1, 3)); m = draw(st.integers(2, 4)); n_inner = draw(st.integers(1, 2))
    elif strategy == 'joint':
        d = draw(st.integers(2, 3)); m = draw(st.integers(2, 4)); n_inner = draw(st.integers(1, 2))
    else:
        d = draw(st.integers(2, 3)); n_inner = draw(st.integers(1, 2))
        m = draw(st.integers(2, 3 if (d == 3 and n_inner == 2) else 4))
        if d == 3 and n_inner == 2:
            m = 2
    names = draw(cfgs.names_st(d))
    storage = draw(st.sampled_from([{'cls': 'batch', 'k': m}, {'cls': 'interval', 'k': m}, {'cls': 'uniform', 'k': m},
                                    {'cls': 'geometric', 'k': m, 'p': None}, {'cls': 'interval', 'k': m}]))
    # beyond capacity: windows slide, reservoirs replace (BatchStorage keeps everything, so no extra rows there)
    n_rows = m + (0 if storage['cls'] == 'batch' else draw(st.sampled_from([0, 1, 2, 3])))
    rows = draw(st.lists(st.lists(st.integers(-3, 3), min_size=d, max_size=d), min_size=n_rows, max_size=n_rows, unique_by=tuple))
    cfg = {'d': d, 'names': names, 'dynamic': True, 'alpha': '1', 'n_inner': n_inner,
           'storage': storage,
           'imputer': {'kind': 'marginal', 'strategy': strategy}, 'model': draw(cfgs.model_st(d)), 'loss': draw(cfgs.loss_st()),
           'lbib': False, 'seeds': [0, 0], 'mode': 'exact', 'stream': []}
    variants = {}
    kind = draw(st.sampled_from(['plain', 'plain', 'positional', 'opt', 'memo']))
    if kind == 'positional':
        # an order-sensitive model and observation dicts whose key order varies
        cfg['model']['positional'] = True
        variants = {'row_perms': [draw(st.sampled_from([1, 2, 3, 0])) for _ in rows], 'x_perm': draw(st.sampled_from([0, 1, 2]))}
    elif kind == 'memo':
        cfg['model']['memo'] = True      # equal inputs get the same prediction object back
    elif kind == 'opt':
        # an optional unexplained key that only some observations carry
        cfg['model']['opt'] = [draw(st.integers(1, 3))]
        variants = {'row_opts': [draw(st.sampled_from([1, -2, None])) for _ in rows], 'x_opt': draw(st.sampled_from([None, 2]))}
    return {**variants, 'cls': cls, 'cfg': cfg, 'rows': rows, 'warm': draw(st.sampled_from([True, True, False])), 'x': [draw(st.integers(-3, 3)) for _ in range(d)], 'y': draw(st.integers(-3, 3))}


def _batch_leaves(how, d, n, ni):
    per = math.factorial(d) * (n ** (ni * d) if how == 'original' else n ** (ni * (d - 1)))
    return per ** n


@st.composite
def batch_cases(draw, max_leaves=1100):
    how = draw(st.sampled_from(['many', 'original', 'original', 'interval']))
    shapes = [(d, n, ni) for d in (1, 2) for n in (1, 2, 3) for ni in (1, 2) if _batch_leaves(how, d, n, ni) <= max_leaves]
    d, n, n_inner = draw(st.sampled_from(shapes))
    rows = draw(cfgs.stream_st(d, n, n, per_call=False))
    return {'how': how, 'names': draw(cfgs.names_st(d)), 'model': draw(cfgs.model_st(d)), 'loss': draw(cfgs.loss_st()),
            'n_inner': n_inner, 'rows': rows,
            'original_variant': draw(st.sampled_from([None, 'product_imputer', 'other_storage_content'])) if how == 'original' else None}


SUBS = {'enum_incremental': run_enum_incremental, 'enum_batch': run_enum_batch}


def replay(sub, case):
    if sub in SUBS:
        return SUBS[sub](case)
    from ..core import Ctx
    ctx = Ctx('C04', 'quick', case.get('seed', 1))
    if sub == 'mc_draws':
        ok, key, detail, _ = mc_draws(ctx, case['cls'], case['d'], case['m'], case['n_inner'], case['strategy'], case['N'])
        return Result(ok, key=key, detail=detail)
    ok, detail = mc_mean(ctx, case['case'], case['N'])
    return Result(bool(ok), key='C04:mean-of-samples', detail=detail)


# every leaf of an enumeration deep-copies a warm explainer (~10-20 ms): the cap bounds one case to ~30 s (quick) / ~2 min (thorough);
# larger trees are recognised after their first leaf and skipped (label not_enumerable)
MAX_LEAVES = {'n': 1500}


def _differs(got, want, lossy):
    """Exact rationals are compared with ==.  Where the implementation itself left exact arithmetic (it returned floats) a mismatch only
    counts if it also exceeds a float tolerance (DESIGN 2.3)."""
    if got == want:
        return False
    return not lossy or abs(float(got) - float(want)) > 1e-9 * max(1.0, abs(float(want)))


def self_check():
    ref.self_check()
    rng.self_check()


def run(ctx):
    ctx.rule, ctx.assumptions = RULE, ASSUMPTIONS
    MAX_LEAVES['n'] = 6000 if ctx.thorough() else 1500
    leaves = {'n': 0}

    def wrap(fn):
        def f(case):
            res = fn(case)
            if isinstance(res.detail, dict):
                leaves['n'] += res.detail.get('leaves', 0)
            return res
        return f
    if not ctx.search('enum_incremental', inc_cases(), wrap(run_enum_incremental), ctx.n(24, 160), shrink=ctx.thorough()):
        return
    if not ctx.search('enum_batch', batch_cases(1100 if not ctx.thorough() else 2000), wrap(run_enum_batch), ctx.n(40, 300), shrink=ctx.thorough()):
        return
    ctx.extra['enumerated_leaves'] = leaves['n']
    # layer 2
    N = 12000 if not ctx.thorough() else 50000
    plans = [('sage', 3, 3, 2, 'joint'), ('sage', 3, 4, 2, 'product'), ('pfi', 3, 5, 2, 'joint'), ('pfi', 2, 4, 2, 'product'),
             ('sage', 4, 6, 1, 'joint'), ('sage', 2, 5, 2, 'product')]
    if ctx.thorough():
        plans = [p for i, p in enumerate(plans) if i % ctx.nshards == ctx.shard]
    for cls, d, m, n_inner, strategy in plans:
        ok, key, detail, info = mc_draws(ctx, cls, d, m, n_inner, strategy, N)
        ctx.add_nontrivial('mc_draws', [cls, d, m, n_inner, strategy], sample={'cls': cls, 'd': d, 'rows': m, 'n_inner': n_inner,
                                                                              'strategy': strategy, 'N': N})
        if not ok:
            if ctx.violation('mc_draws', key, detail, {'cls': cls, 'd': d, 'm': m, 'n_inner': n_inner, 'strategy': strategy,
                                                       'N': N, 'seed': ctx.base_seed}):
                return
    # layer 3
    if ctx.shard == 0:
        for cls, strategy in (('sage', 'joint'), ('sage', 'product'), ('pfi', 'joint')):
            case = _tagged_state(cls, 3, 5, 2, strategy, 3)
            case['cfg']['model'] = {'outs': [{'label': 'output', 'b': 1, 'w': [1, -2, 3], 'pair': [0, 1, 1], 'gate': None}]}
            case['rows'] = [[1, 0, 2], [0, 3, -1], [2, 2, 2], [-1, 1, 0], [3, -2, 1]]
            case['x'] = [1, -1, 2]
            case['y'] = 1
            nn = 4000 if not ctx.thorough() else 40000
            ok, detail = mc_mean(ctx, case, nn)
            ctx.add_nontrivial('mc_mean', [cls, strategy], sample={'cls': cls, 'strategy': strategy, 'N': nn})
            if not ok:
                if ctx.violation('mc_mean', 'C04:mean-of-samples', detail, {'case': case, 'N': nn, 'seed': ctx.base_seed}):
                    return
