"""C05 - batch and interval SAGE: efficiency over explained data, per-feature averages, interval schedule (DESIGN 3, C05)."""
import random

import numpy as np
from hypothesis import strategies as st
from hypothesis.stateful import rule, initialize

from ..core import Result, machine_base
from ..exact import Q
from ..doubles import Model, Loss, Log, recording_imputer, num
from .. import cfgs, gen, ref, refx

LEVEL = 'exploration'
RULE = ("(a) BatchSage: data sets of 1..6 rows, d in 1..4, exact rationals or floats, via explain_one (growing data), explain_many and "
        "explain_many_original, n_inner constructor/per-call. Oracle (i) efficiency WITHOUT reading any draw: sum(values) == "
        "mean_i[loss(y_i, mean prediction over the explained data) - loss(y_i, model(x_i))], == in exact mode, for every seed; "
        "(ii) each value == average over observations of that feature's chain contribution, with order and predictions read from a "
        "recording imputer (normal mode) or from the identity of value objects in the recorded model inputs (original mode; a chain "
        "that cannot be reconstructed unambiguously because a background row was the explained row itself skips (ii) only). "
        "(b) IntervalSage through a RuleBasedStateMachine: rule explain_one(x, y, force, update_storage, n_inner override), "
        "interval_length 1..5, storage_length 1..5 or left at its documented default 1000 (a recomputation on an empty window is never generated). Oracle (iii): on a "
        "non-multiple unforced call the returned dict equals the previous values with ZERO model and loss evaluations; otherwise (i) "
        "holds on exactly the window = last storage_length stored observations, the model is evaluated once on the whole window plus "
        "|window|*d*n_inner single calls; seen_samples == number of calls. After every call the storage content and the caller's observation dicts are compared BY VALUE with copies taken at arrival. Non-trivial: n>=2 and d>=2 (batch); history with a forced "
        "call on a non-multiple ordinal, an unforced skip and a window that has slid (interval); distinct by case digest.")
ASSUMPTIONS = ["fractions.Fraction arithmetic", "original mode: feature names cover every feature the model reads (true by construction)"]


def _expected_total(model_ref, loss_ref, xs, ys):
    """mean_i [loss(y_i, mean prediction) - loss(y_i, model(x_i))] in exact arithmetic."""
    preds = [model_ref.pure(refx.lift_dict(x)) for x in xs]
    mp = ref.mean_output(preds)
    tot = Q(0)
    for x, y, p in zip(xs, ys, preds):
        tot = tot + loss_ref(refx.lift(y), mp) - loss_ref(refx.lift(y), p)
    return tot / len(xs), mp


def _chains_from_imputer(calls, names, n, d, n_inner):
    """normal mode: imputer.calls has n*d entries."""
    if len(calls) != n * d:
        return None, f'{len(calls)} imputer calls for n={n}, d={d}'
    out = []
    for i in range(n):
        remaining = list(names)
        chain = []
        for k in range(d):
            subset, _t, ns, preds, _x = calls[i * d + k]
            sub = [refx.norm_key(s) for s in subset]
            if not set(sub) <= set(remaining) or len(sub) != d - k - 1 or len(set(sub)) != len(sub):
                return None, f'observation {i + 1} step {k + 1}: subset {sub!r} is not the complement of a growing coalition'
            if ns != n_inner or len(preds) != n_inner:
                return None, f'n_samples {ns} / {len(preds)} predictions, expected {n_inner}'
            f = [m for m in remaining if m not in sub][0]
            remaining = [m for m in remaining if m != f]
            chain.append((f, preds))
        out.append(chain)
    return out, None


class PermRecorder:
    """Records what np.random.permutation returned (an observation aid for original mode; the chain is still validated
    against the identity of the value objects in the model inputs, and ignored if inconsistent)."""

    def __init__(self):
        self.out = []
        self._real = None

    def __enter__(self):
        self._real = np.random.permutation

        def wrapped(x):
            r = self._real(x)
            self.out.append(list(r))
            return r
        np.random.permutation = wrapped
        return self

    def __exit__(self, *a):
        np.random.permutation = self._real


def _chains_from_perms(perms, model_calls, xs, names, n, d, n_inner):
    """The recorded permutation may hold feature NAMES or INDICES into the name list (and integer names can make that ambiguous):
    both readings are tried, each is validated against the identity of the value objects in the recorded model inputs, and the chain is
    used only if exactly one distinct reading survives."""
    if len(perms) != n or len(model_calls) != n * d * n_inner:
        return None
    out = []
    pos = 0
    for i in range(n):
        p = perms[i]
        if len(p) != d:
            return None
        candidates = []
        as_names = [refx.norm_key(v) for v in p]
        if sorted(map(repr, as_names)) == sorted(map(repr, names)):
            candidates.append(as_names)
        if all(isinstance(v, (int, np.integer)) and not isinstance(v, bool) for v in p) and sorted(int(v) for v in p) == list(range(d)):
            as_idx = [names[int(v)] for v in p]
            if as_idx not in candidates:
                candidates.append(as_idx)
        own = {f: id(xs[i][f]) for f in names}
        calls_i = model_calls[pos:pos + d * n_inner]
        pos += d * n_inner
        surviving = []
        for order in candidates:
            ok = True
            for k in range(d):
                coalition = set(order[:k + 1])
                for s_ in range(n_inner):
                    _inp, ids, _outp = calls_i[k * n_inner + s_]
                    S = {f for f in names if ids.get(f) == own[f]}
                    if not coalition <= S:
                        ok = False
            if ok:
                surviving.append(order)
        if len(surviving) != 1:
            return None
        order = surviving[0]
        out.append([(order[k], [calls_i[k * n_inner + s_][2] for s_ in range(n_inner)]) for k in range(d)])
    return out


def _chains_from_identity(model_calls, xs, names, n, d, n_inner):
    """original mode: n*d*n_inner single model calls; coalition members carry the explained instance's own value objects."""
    if len(model_calls) != n * d * n_inner:
        return None, f'{len(model_calls)} single model calls for n={n}, d={d}, n_inner={n_inner}', False
    out = []
    pos = 0
    for i in range(n):
        own = {f: id(xs[i][f]) for f in names}
        prev = set()
        chain = []
        for k in range(d):
            inter = None
            preds = []
            for _s in range(n_inner):
                inp, ids, outp = model_calls[pos]
                pos += 1
                preds.append(outp)
                S = {f for f in names if ids.get(f) == own[f]}
                inter = S if inter is None else (inter & S)
            if not (prev < inter and len(inter) == k + 1):
                return None, 'ambiguous', True
            f = list(inter - prev)[0]
            prev = inter
            chain.append((f, preds))
        out.append(chain)
    return out, None, False


def _values_from_chains(chains, loss_ref, ys, mp, names):
    vals = {f: Q(0) for f in names}
    for chain, y in zip(chains, ys):
        yq = refx.lift(y)
        L = loss_ref(yq, mp)
        for f, preds in chain:
            Lk = loss_ref(yq, ref.mean_output([refx.lift_dict(p) for p in preds]))
            vals[f] = vals[f] + (L - Lk)
            L = Lk
    return {f: v / len(ys) for f, v in vals.items()}


def run_batch(case):
    from ixai.explainer.sage import BatchSage
    from ixai.storage import BatchStorage
    from ixai.imputer import MarginalImputer
    names = list(case['names'])
    d = len(names)
    mode = case['mode']
    log = Log()
    model = Model(case['spec'], names, mode, log=log)
    loss = Loss(case['loss'], mode, log=log)
    model_ref = Model(case['spec'], names, 'exact', record=False)
    loss_ref = refx.ExactLoss(case['loss'])
    storage = BatchStorage(store_targets=True)
    imp = recording_imputer(MarginalImputer(model, case['strategy'], storage))
    kwargs = {}
    if case['n_inner'] is not None:
        kwargs['n_inner_samples'] = case['n_inner']
    random.seed(case['seeds'][0])
    np.random.seed(case['seeds'][1])
    try:
        ex = BatchSage(model, names, loss, storage=storage, imputer=imp, **kwargs)
    except Exception as e:
        return Result(False, key=f'C05:batch:construct:{type(e).__name__}', detail=repr(e))
    cmp = refx.Cmp(mode)
    how = case['how']
    eff_inner = case['n_inner_call'] if case['n_inner_call'] is not None else (case['n_inner'] or 1)
    call_kw = {'verbose': False}
    if case['n_inner_call'] is not None:
        call_kw['n_inner_samples'] = case['n_inner_call']
    xs, ys = [], []
    ambiguous = False
    checks = 0

    def check(ret, xs_, ys_, icalls, mcalls, original, perms=()):
        nonlocal ambiguous
        n = len(xs_)
        want_total, mp = _expected_total(model_ref, loss_ref, xs_, ys_)
        tol = 64 * (d + 2) * (n + 1) * refx.EPS * loss_ref.scale
        if not isinstance(ret, dict) or set(map(refx.norm_key, ret)) != set(names) or len(ret) != d:
            return 'keys', f'returned keys {list(ret)!r}'
        total = sum(ret.values(), Q(0) if mode == 'exact' else 0.0)
        if not cmp.num(total, want_total, tol):
            return 'efficiency', (f'sum of values {total!r} != mean_i[loss(y_i, mean prediction) - loss(y_i, model(x_i))] = '
                                  f'{want_total!r} over {n} observations ({how})')
        if original:
            chains, err, amb = _chains_from_identity(mcalls, xs_, names, n, d, eff_inner)
            if amb:
                chains = _chains_from_perms(perms, mcalls, xs_, names, n, d, eff_inner)
                err = None
                if chains is None:
                    ambiguous = True
                    return None
        else:
            chains, err = _chains_from_imputer(icalls, names, n, d, eff_inner)
        if err:
            return 'chain', err
        want = _values_from_chains(chains, loss_ref, ys_, mp, names)
        bad = cmp.dict(ret, want, tol)
        if bad:
            return 'per-feature-average', f'{how}: {bad}'
        return None

    snapshots = []

    def storage_intact():
        """Explaining must not modify the observations (the storage holds the caller's dicts): compare BY VALUE with copies taken
        at arrival time (C05 anchors ixai/storage/interval_storage.py; this is the observed-data clause of C07 reached through the explainer)."""
        stored = [dict(r) for r in storage.get_data()[0]]
        if stored != [s_[0] for s_ in snapshots] or list(storage.get_data()[1]) != [s_[1] for s_ in snapshots]:
            return 'storage-modified', f'{how}: after explaining, the storage holds {stored!r}; the observations that arrived were {[s_[0] for s_ in snapshots]!r}'
        if [dict(x_) for x_ in xs] != [s_[0] for s_ in snapshots]:
            return 'observations-modified', f'{how}: the caller\'s observation dicts were modified'
        return None

    try:
        if how in ('one', 'original_one'):
            for r in case['rows']:
                x = {n_: num(v, mode) for n_, v in zip(names, r['x'])}
                y = num(r['y'], mode)
                xs.append(x), ys.append(y)
                snapshots.append((dict(x), y))
                im, mm = len(imp.calls), len(model.calls)
                kw = dict(call_kw)
                if how == 'original_one':
                    kw['original_sage'] = True
                with PermRecorder() as pr:
                    ret = ex.explain_one(x, y, **kw)
                err = check(ret, xs, ys, imp.calls[im:], model.calls[mm:], how == 'original_one', pr.out)
                err = err or storage_intact()
                checks += 1
                if err:
                    return Result(False, key=f'C05:batch:{err[0]}', detail=f'after {len(xs)} observations: {err[1]}')
                if ret != ex.importance_values:
                    return Result(False, key='C05:batch:return-value', detail='returned dict differs from importance_values')
        else:
            for r in case['rows']:
                x = {n_: num(v, mode) for n_, v in zip(names, r['x'])}
                y = num(r['y'], mode)
                xs.append(x), ys.append(y)
                snapshots.append((dict(x), y))
                ex.update_storage(x, y)
            im, mm = len(imp.calls), len(model.calls)
            with PermRecorder() as pr:
                if how == 'many':
                    ret = ex.explain_many(list(xs), list(ys), **call_kw)
                else:
                    ret = ex.explain_many_original(list(xs), list(ys), **call_kw)
            err = check(ret, xs, ys, imp.calls[im:], model.calls[mm:], how == 'original_many', pr.out)
            err = err or storage_intact()
            checks += 1
            if err:
                return Result(False, key=f'C05:batch:{err[0]}', detail=err[1])
    except TypeError as e:
        if mode == 'exact' and not case.get('_fallback'):
            if case['loss'].get('kind') == '01':
                return Result(True, nontrivial=False, labels=['exact_arithmetic_unsupported', 'discontinuous_loss_not_compared_in_floats'])
            res = run_batch(dict(case, mode='float', _fallback=True))   # the float twin decides (see DESIGN 2.3)
            res.labels = list(res.labels) + ['exact_arithmetic_unsupported']
            return res
        return Result(False, key='C05:batch:exception:TypeError', detail=f'{how}: {e!r}')
    except Exception as e:
        return Result(False, key=f'C05:batch:exception:{type(e).__name__}', detail=f'{how}: {e!r}')
    labels = [how, mode, f'd={d}', f'n={len(xs)}']
    if ambiguous:
        labels.append('ambiguous_original_step')
    if cmp.exactness_lost:
        labels.append('exactness_lost')
    return Result(True, nontrivial=len(xs) >= 2 and d >= 2, labels=labels)


# ---- IntervalSage schedule ---------------------------------------------------------------------------

class IntervalSim:
    def __init__(self, cfg):
        from ixai.explainer.sage import IntervalSage
        self.cfg = cfg
        self.names = list(cfg['names'])
        self.d = len(self.names)
        self.mode = cfg['mode']
        self.log = Log()
        self.model = Model(cfg['spec'], self.names, self.mode, log=self.log)
        self.loss = Loss(cfg['loss'], self.mode, log=self.log)
        self.model_ref = Model(cfg['spec'], self.names, 'exact', record=False)
        self.loss_ref = refx.ExactLoss(cfg['loss'])
        random.seed(cfg['seeds'][0])
        np.random.seed(cfg['seeds'][1])
        kw = {}
        if cfg['n_inner'] is not None:
            kw['n_inner_samples'] = cfg['n_inner']
        if cfg.get('own_storage'):
            # the caller supplies the (still empty) IntervalStorage: ITS size is the window, whatever storage_length says
            from ixai.storage import IntervalStorage
            kw['storage'] = IntervalStorage(size=cfg['storage_length'], store_targets=True)
            self.ex = IntervalSage(self.model, self.names, self.loss, interval_length=cfg['interval'],
                                   storage_length=cfg['storage_length'] + cfg['own_storage'], **kw)
        elif cfg['storage_length'] >= 1000:
            # storage_length left at its documented default (1000): on these short streams the window is everything stored so far
            self.ex = IntervalSage(self.model, self.names, self.loss, interval_length=cfg['interval'], **kw)
        else:
            self.ex = IntervalSage(self.model, self.names, self.loss, interval_length=cfg['interval'],
                                   storage_length=cfg['storage_length'], **kw)
        self.window = []
        self.calls = 0
        self.stored = 0
        self.prev = dict(self.ex.importance_values)
        self.cmp = refx.Cmp(self.mode)
        self.saw_forced_offbeat = self.saw_skip = self.saw_slide = False
        self.unsupported = False

    def apply(self, op):
        _k, xv, yv, force, upd, n_inner = op
        if self.unsupported:
            return None
        ordinal = self.calls + 1
        recompute = force or ordinal % self.cfg['interval'] == 0
        if recompute and not upd and not self.window:
            upd = True   # construction: never recompute on an empty window
        x = {n_: num(v, self.mode) for n_, v in zip(self.names, xv)}
        y = num(yv, self.mode)
        kw = {'verbose': False, 'force_explain': force}
        if not upd:
            kw['update_storage'] = False
        if n_inner is not None:
            kw['n_inner_samples'] = n_inner
        mark = self.log.mark()
        nb = len(self.model.batch_calls)
        try:
            ret = self.ex.explain_one(x, y, **kw)
        except TypeError as e:
            if self.mode == 'exact':
                self.unsupported = True
                return None
            return 'C05:interval:exception:TypeError', f'call {ordinal}: {e!r}'
        except Exception as e:
            return f'C05:interval:exception:{type(e).__name__}', f'call {ordinal}: {e!r}'
        self.calls += 1
        if upd:
            self.window.append((x, y))
            self.stored += 1
            if len(self.window) > self.cfg['storage_length']:
                self.window.pop(0)
                self.saw_slide = True
        evs = self.log.since(mark)
        if self.ex.seen_samples != self.calls:
            return 'C05:interval:seen_samples', f'seen_samples={self.ex.seen_samples} after {self.calls} calls'
        if ret != self.ex.importance_values:
            return 'C05:interval:return-value', 'returned dict differs from importance_values'
        if not recompute:
            self.saw_skip = True
            if evs:
                return 'C05:interval:evaluated-on-skip', (f'call {ordinal} (interval {self.cfg["interval"]}, unforced): '
                                                          f'{len(evs)} model/loss evaluations on a call that must return stored values')
            if ret != self.prev:
                return 'C05:interval:values-changed-on-skip', f'call {ordinal}: values changed from {self.prev!r} to {ret!r}'
            return None
        if force and ordinal % self.cfg['interval'] != 0:
            self.saw_forced_offbeat = True
        eff = n_inner if n_inner is not None else (self.cfg['n_inner'] or 1)
        xs = [w[0] for w in self.window]
        ys = [w[1] for w in self.window]
        new_batches = self.model.batch_calls[nb:]
        if len(new_batches) != 1:
            return 'C05:interval:batch-calls', f'call {ordinal}: {len(new_batches)} whole-window model evaluations'
        if new_batches[0] != xs:
            return 'C05:interval:window', (f'call {ordinal}: explained data {new_batches[0]!r} is not the last '
                                           f'{self.cfg["storage_length"]} stored observations {xs!r}')
        singles = sum(1 for e in evs if e[0] == 'model')
        if singles != len(xs) * self.d * eff:
            return 'C05:interval:model-evaluations', f'call {ordinal}: {singles} single model calls, expected {len(xs)}*{self.d}*{eff}'
        want_total, _mp = _expected_total(self.model_ref, self.loss_ref, xs, ys)
        tol = 64 * (self.d + 2) * (len(xs) + 1) * refx.EPS * self.loss_ref.scale
        total = sum(ret.values(), Q(0) if self.mode == 'exact' else 0.0)
        if set(map(refx.norm_key, ret)) != set(self.names):
            return 'C05:interval:keys', f'keys {list(ret)!r}'
        if not self.cmp.num(total, want_total, tol):
            return 'C05:interval:efficiency', f'call {ordinal}: sum {total!r} != {want_total!r} over the window of {len(xs)}'
        self.prev = dict(ret)
        return None

    def nontrivial(self):
        return self.saw_forced_offbeat and self.saw_skip and self.saw_slide


def run_interval(case):
    try:
        sim = IntervalSim(case['cfg'])
    except Exception as e:
        return Result(False, key=f'C05:interval:construct:{type(e).__name__}', detail=repr(e))
    for op in case['ops']:
        err = sim.apply(op)
        if err:
            return Result(False, key=err[0], detail=err[1])
    return Result(True, nontrivial=sim.nontrivial(), labels=[sim.mode])


@st.composite
def interval_cfg(draw):
    d = draw(st.integers(1, 3))
    loss = draw(cfgs.loss_st())
    return {'names': draw(cfgs.names_st(d)), 'spec': draw(cfgs.model_st(d)), 'loss': loss,
            'mode': draw(st.sampled_from(['exact', 'float'])) if loss['kind'] != '01' else 'exact', 'seeds': [draw(gen.seed32), draw(gen.seed32)],
            'n_inner': draw(st.sampled_from([None, 1, 2])), 'interval': draw(st.integers(1, 5)),
            'storage_length': draw(st.sampled_from([1, 2, 3, 4, 5, 1000])), 'own_storage': draw(st.sampled_from([0, 0, 1, 3]))}


def make_machine():
    Base = machine_base()

    class IntervalMachine(Base):
        def __init__(self):
            super().__init__()
            self.sim = None

        @initialize(cfg=interval_cfg())
        def setup(self, cfg):
            self.cfg = cfg
            self.ops = []
            try:
                self.sim = IntervalSim(cfg)
            except Exception as e:
                self.fail(f'C05:interval:construct:{type(e).__name__}', repr(e), {'cfg': cfg, 'ops': []})

        @rule(data=st.data(), y=st.integers(-3, 3), force=st.sampled_from([False, False, True]),
              upd=st.sampled_from([True, True, True, False]), n_inner=st.sampled_from([None, None, 1, 2]))
        def explain_one(self, data, y, force, upd, n_inner):
            if self.sim is None:
                return
            x = [data.draw(cfgs.value_st()) for _ in range(self.sim.d)]
            op = ['explain', x, y, force, upd, n_inner]
            self.ops.append(op)
            err = self.sim.apply(op)
            if err:
                self.fail(err[0], err[1], {'cfg': self.cfg, 'ops': list(self.ops)})

        def teardown(self):
            if self.sim is None:
                return
            self.done({'cfg': self.cfg, 'ops': list(self.ops)},
                      Result(True, nontrivial=self.sim.nontrivial(), labels=[self.sim.mode, f"interval={self.cfg['interval']}"]))

    return IntervalMachine


@st.composite
def batch_cases(draw):
    d = draw(st.integers(1, 4))
    rows = draw(cfgs.stream_st(d, 1, 6, per_call=False))
    loss = draw(cfgs.loss_st())
    return {'names': draw(cfgs.names_st(d)), 'spec': draw(cfgs.model_st(d)), 'loss': loss,
            'mode': draw(st.sampled_from(['exact', 'exact', 'float'])) if loss['kind'] != '01' else 'exact', 'seeds': [draw(gen.seed32), draw(gen.seed32)],
            'strategy': draw(st.sampled_from(['joint', 'product'])),
            'n_inner': draw(st.sampled_from([None, 1, 2, 3])), 'n_inner_call': draw(st.sampled_from([None, None, 1, 2])),
            'how': draw(st.sampled_from(['one', 'many', 'original_one', 'original_many'])), 'rows': rows}


SUBS = {'batch': run_batch, 'interval_machine': run_interval}


def replay(sub, case):
    return SUBS[sub](case)


def self_check():
    ref.self_check()


def run(ctx):
    ctx.rule, ctx.assumptions = RULE, ASSUMPTIONS
    ctx.search('batch', batch_cases(), run_batch, ctx.n(1200, 96000))
    ctx.machine_search('interval_machine', make_machine(), ctx.n(300, 32000), 30)
