"""C07 - storages hold only observed data, within capacity, with targets aligned (DESIGN 3, C07)."""
import random

from hypothesis import strategies as st
from hypothesis.stateful import RuleBasedStateMachine, rule, initialize, invariant, precondition

from ..core import Result, _Violation
from .. import gen, rng

LEVEL = 'exploration'
RULE = ("(a) Histories: a Hypothesis RuleBasedStateMachine per run picks storage class (Batch, Interval, Sequence, UniformReservoir, "
        "GeometricReservoir), capacity 1..6, store_targets and (Geometric) p in {0, 1, default, grid, arbitrary float}; every "
        "update carries a unique serial number in x and in y (a quarter of the storages are user SUBCLASSES overriding get_data() to hand out copies; the storage may be forked mid-stream - copy.deepcopy or a pickle round trip - after which the copy carries on and the original must stay exactly as it was; `storage.update` is looked up per call or ONCE and reused as a bound method; some arrivals come WITHOUT a target: update(x) / y=None; in a quarter of the configurations some arrivals carry the very same dict OBJECT as the arrival before - a repeated reading - and count as arrivals of their own, told apart by their targets), the library's random draws come from a Hypothesis-generated script "
        "(extremes 0.0 and 1-2^-53 included). After EVERY update: stored serials pairwise distinct and a subset of arrivals, "
        "len == min(n, capacity) (Batch: n), targets aligned with instances or absent, Batch == stream, Interval == last size, "
        "Sequence == last one. (b) Exhaustive: every outcome of the draws (choice-point enumeration; uniforms on a 3-cell grid) for "
        "every reservoir class, k<=3, n<=k+2..3, both store_targets values; plus capacities 257 and 300 (beyond CPython's small-integer cache) and NumPy-integer capacities. Non-trivial: n > capacity, store_targets=True and, for "
        "reservoirs, at least one replacement happened; distinct by digest of (config, draws).")
ASSUMPTIONS = ["the invariants are checked on get_data()/len() only (public observations)",
               "for UniformReservoirStorage the enumeration walks a 3-cell grid of the continuous uniforms: exhaustive over slot "
               "choices, a sample of skip lengths"]

CLASSES = ['batch', 'interval', 'sequence', 'uniform', 'geometric']


def make(cfg):
    from ixai.storage import (BatchStorage, IntervalStorage, SequenceStorage, UniformReservoirStorage,
                              GeometricReservoirStorage)
    c, k, stt = cfg['cls'], cfg['k'], cfg['st']
    if cfg.get('np_capacity'):
        import numpy as np
        k = np.int64(k)        # a capacity that is an integer, but not a Python int
    pos = cfg.get('positional_ctor')      # arguments given positionally, in the documented order
    view = _snapshot_view if cfg.get('copy_view') else (lambda cls: cls)
    if c == 'batch':
        return view(BatchStorage)(stt) if pos else view(BatchStorage)(store_targets=stt)
    if c == 'interval':
        return view(IntervalStorage)(k, stt) if pos else view(IntervalStorage)(size=k, store_targets=stt)
    if c == 'sequence':
        return view(SequenceStorage)(stt) if pos else view(SequenceStorage)(store_targets=stt)
    if c == 'uniform':
        return view(UniformReservoirStorage)(k, stt) if pos else view(UniformReservoirStorage)(size=k, store_targets=stt)
    if c == 'geometric':
        p = cfg.get('p')
        return view(GeometricReservoirStorage)(k, p, stt) if pos else view(GeometricReservoirStorage)(size=k, store_targets=stt, constant_probability=p)
    raise ValueError(c)


_VIEWS = {}


def _snapshot_view(cls):
    """A user subclass that overrides ONE documented method: get_data() hands out copies of the lists (readers get a snapshot).
    Whatever the base class does to its own content must not go through this hook."""
    if cls not in _VIEWS:
        class SnapshotView(cls):
            def get_data(self):
                xs, ys = super().get_data()
                return list(xs), list(ys)
        SnapshotView.__name__ = 'Snapshot' + cls.__name__
        SnapshotView.__qualname__ = SnapshotView.__name__
        SnapshotView.__module__ = __name__
        globals()[SnapshotView.__name__] = SnapshotView        # importable by name: instances survive a pickle round trip
        _VIEWS[cls] = SnapshotView
    return _VIEWS[cls]


def capacity(cfg):
    return {'batch': None, 'sequence': 1}.get(cfg['cls'], cfg['k'])


def _is_none(cfg, i):
    """Arrival i comes without a target (update(x) / y=None - the documented default of the optional argument)."""
    pat = cfg.get('none_targets')
    return bool(pat) and bool(pat[i % len(pat)])


def _resent(cfg, i):
    """Arrival i re-sends the very same dict OBJECT as arrival i-1 (a repeated reading, itertools.repeat, a replayed record): it is
    an arrival of its own all the same."""
    pat = cfg.get('resend')
    return bool(pat) and i > 1 and bool(pat[i % len(pat)])


def obj_id(cfg, i):
    """Serial of the arrival whose dict object arrival i carries."""
    while _resent(cfg, i):
        i -= 1
    return i


def check_state(cfg, storage, n, prev_serials):
    """Invariant after n updates.  Returns (error key, detail) or None."""
    xs, ys = storage.get_data()
    xs, ys = list(xs), list(ys)
    cap = capacity(cfg)
    want_len = n if cap is None else min(n, cap)
    if len(storage) != want_len or len(xs) != want_len:
        return 'len', f'after {n} updates len(storage)={len(storage)}, len(xs)={len(xs)}, expected {want_len}'
    resend = bool(cfg.get('resend'))
    arrivals = {}                       # object id -> serials of the arrivals that carried it
    for i in range(1, n + 1):
        arrivals.setdefault(obj_id(cfg, i), []).append(i)
    ids = []
    for x in xs:
        if not (isinstance(x, dict) and set(x) == {'id', 'v'} and isinstance(x['id'], int)
                and x['id'] in arrivals and x['v'] == x['id'] * 10):
            return 'not-observed', f'stored instance {x!r} is not an observed one'
        ids.append(x['id'])
    for i in set(ids):
        if ids.count(i) > len(arrivals[i]):
            return 'duplicate', f'an arrival is stored twice: {ids} (arrivals per object: { {k: len(v) for k, v in arrivals.items()} })'
    if cfg['st']:
        if len(ys) != len(xs):
            return 'targets-length', f'{len(xs)} instances but {len(ys)} targets'
        seen = set()
        for x, y in zip(xs, ys):
            if resend:
                # every arrival has its own target: the target names the arrival, which must have carried this object - and only once
                if not (isinstance(y, list) and len(y) == 2 and y[0] == 'y' and y[1] in arrivals[x['id']]):
                    return 'targets-misaligned', f'instance {x["id"]} (arrivals {arrivals[x["id"]]}) stored with target {y!r}'
                if y[1] in seen:
                    return 'duplicate', f'arrival {y[1]} is stored twice'
                seen.add(y[1])
                continue
            want = None if _is_none(cfg, x['id']) else ['y', x['id']]
            if y != want:
                return 'targets-misaligned', f'instance {x["id"]} stored with target {y!r}, it arrived with {want!r}'
    elif len(ys) != 0:
        return 'targets-kept', f'store_targets=False but {len(ys)} targets kept'
    if cfg['cls'] == 'batch' and ids != [obj_id(cfg, i) for i in range(1, n + 1)]:
        return 'batch-order', f'BatchStorage holds {ids} after {n} updates'
    if cfg['cls'] in ('interval', 'sequence') and ids != [obj_id(cfg, i) for i in range(max(1, n - cap + 1), n + 1)]:
        return 'window', f'{cfg["cls"]} (size {cap}) holds {ids} after {n} updates'
    if resend and cfg['st'] and cfg['cls'] in ('batch', 'interval', 'sequence'):
        want = list(range(1 if cap is None else max(1, n - cap + 1), n + 1))
        if [y[1] for y in ys] != want:
            return 'window', f'{cfg["cls"]} holds the targets of arrivals {[y[1] for y in ys]} after {n} updates, expected {want}'
    return None


class Feeder:
    """Produces the arrivals of a configuration: fresh dict objects, or - where the configuration says so - the previous OBJECT again."""

    def __init__(self, cfg):
        self.cfg = cfg
        self.last = None
        self.push = None

    def send(self, storage, i):
        cfg = self.cfg
        if not _resent(cfg, i):
            self.last = {'id': i, 'v': i * 10}
        x = self.last
        upd = storage.update
        if cfg.get('cached_update'):
            # `push = storage.update` looked up ONCE (before the first arrival) and reused, as map(storage.update, ...) would
            if self.push is None or self.push.__self__ is not storage:
                self.push = storage.update
            upd = self.push
        if _is_none(cfg, i) and not cfg.get('resend'):
            if i % 2:
                upd(x)
            else:
                upd(x, None)
        else:
            upd(x, ['y', i])

    def newest_stored(self, storage, i):
        xs, ys = storage.get_data()
        if self.cfg.get('resend') and self.cfg['st']:
            return any(y == ['y', i] for y in ys)
        return any(x['id'] == obj_id(self.cfg, i) for x in xs)


def _snapshot(storage):
    xs, ys = storage.get_data()
    return [dict(x) for x in xs], [list(y) if isinstance(y, list) else y for y in ys], len(storage)


def fork(storage, kind):
    """A checkpoint / what-if copy taken mid-stream: the copy carries on with the stream, the original must stay as it was."""
    import copy
    import pickle
    if kind == 'pickle':
        return pickle.loads(pickle.dumps(storage))
    return copy.deepcopy(storage)


def drive(cfg, n, on_step=None):
    storage = make(cfg)
    replaced = False
    feeder = Feeder(cfg)
    left_behind = None
    for i in range(1, n + 1):
        if cfg.get('fork_at') and i == cfg['fork_at'] + 1:
            left_behind = (storage, _snapshot(storage), i - 1)
            storage = fork(storage, cfg.get('fork_kind', 'deepcopy'))
        feeder.send(storage, i)
        if left_behind is not None and _snapshot(left_behind[0]) != left_behind[1]:
            return ('fork-aliases', f'arrival {i} was given to a {cfg.get("fork_kind", "deepcopy")} copy taken after {left_behind[2]} arrivals, '
                                    f'and the ORIGINAL storage changed: {left_behind[1]} -> {_snapshot(left_behind[0])}'), replaced
        err = check_state(cfg, storage, i, None)
        if err:
            return err, replaced
        if i > (capacity(cfg) or 10 ** 9) and feeder.newest_stored(storage, i):
            replaced = True
    return None, replaced


def run_scripted(case):
    cfg = case['cfg']
    src = rng.Scripted(case['script'])
    with rng.patched_random(src):
        err, replaced = drive(cfg, case['n'])
    if err:
        return Result(False, key=f"C07:{cfg['cls']}:{err[0]}", detail=err[1])
    cap = capacity(cfg)
    nt = cfg['st'] and cap is not None and case['n'] > cap and (replaced or cfg['cls'] in ('interval', 'sequence'))
    labels = [cfg['cls']] + (['replaced'] if replaced else [])
    if cfg['cls'] == 'geometric':
        labels.append('p=' + str(cfg.get('p')) if cfg.get('p') in (None, 0, 1, 0.0, 1.0) else 'p=other')
    return Result(True, nontrivial=bool(nt), labels=labels)


def run_enum(case):
    """Every outcome of the draws for one small configuration."""
    cfg, n = case['cfg'], case['n']
    leaves = 0
    repl = 0
    try:
        for p, (err, replaced), path in rng.enumerate_runs(lambda: drive(cfg, n), grid=case.get('grid', 3)):
            leaves += 1
            repl += bool(replaced)
            if err:
                return Result(False, key=f"C07:{cfg['cls']}:{err[0]}", detail=f'{err[1]} (draw path {path})')
    except rng.NotEnumerable as e:
        return Result(True, nontrivial=False, labels=['not_enumerable'], detail=str(e))
    r = Result(True, nontrivial=repl > 0 and cfg['st'], labels=[f"enum:{cfg['cls']}"])
    r.detail = {'leaves': leaves, 'with_replacement': repl}
    return r


# ---- the state machine (histories) ------------------------------------------------------------------

@st.composite
def configs(draw):
    c = draw(st.sampled_from(CLASSES))
    cfg = {'cls': c, 'k': draw(st.integers(1, 6)), 'st': draw(st.booleans())}
    cfg['positional_ctor'] = draw(st.booleans())
    if draw(st.integers(0, 2)) == 0:
        cfg['none_targets'] = draw(st.lists(st.integers(0, 1), min_size=1, max_size=5))   # pattern of arrivals without a target
    if 'none_targets' not in cfg and draw(st.integers(0, 3)) == 0:
        cfg['resend'] = draw(st.lists(st.integers(0, 1), min_size=1, max_size=4).filter(any))   # arrivals that carry the previous dict OBJECT again
    cfg['cached_update'] = draw(st.booleans())
    cfg['copy_view'] = draw(st.integers(0, 3)) == 0      # a user subclass overriding get_data()
    if draw(st.integers(0, 2)) == 0:
        cfg['fork_at'] = draw(st.integers(1, 8))
        cfg['fork_kind'] = draw(st.sampled_from(['deepcopy', 'deepcopy', 'pickle']))
    if c == 'geometric':
        cfg['p'] = draw(st.one_of(st.sampled_from([None, 0, 1, 1.0, 0.0, 0.5, 0.25, 0.75]),
                                  st.floats(0, 1, allow_nan=False)))
    return cfg


class StorageMachine(RuleBasedStateMachine):
    _ctx = None
    _sub = None
    _holder = None

    def __init__(self):
        super().__init__()
        self.cfg = None
        self.left_behind = None

    @initialize(cfg=configs(), script=gen.script)
    def setup(self, cfg, script):
        cfg = {k: v for k, v in cfg.items() if k not in ('fork_at', 'fork_kind')}      # in the machine, forking is a rule
        self.cfg = cfg
        self.script = script
        self.src = rng.Scripted(script)
        with rng.patched_random(self.src):
            self.storage = make(cfg)
        self.n = 0
        self.replaced = False
        self.feeder = Feeder(cfg)
        self.left_behind = None

    @rule()
    def update(self):
        self.n += 1
        with rng.patched_random(self.src):
            self.feeder.send(self.storage, self.n)
        cap = capacity(self.cfg)
        if cap is not None and self.n > cap and self.feeder.newest_stored(self.storage, self.n):
            self.replaced = True

    @precondition(lambda self: self.cfg is not None and self.n > 0 and self.left_behind is None)
    @rule(kind=st.sampled_from(['deepcopy', 'deepcopy', 'pickle']))
    def fork(self, kind):
        self.left_behind = (self.storage, _snapshot(self.storage), self.n, kind)
        self.storage = fork(self.storage, kind)
        self.cfg = dict(self.cfg, fork_at=self.n, fork_kind=kind)      # the replayable case carries the fork

    @invariant()
    def holds(self):
        if self.cfg is None:
            return
        err = check_state(self.cfg, self.storage, self.n, None)
        if not err and self.left_behind is not None and _snapshot(self.left_behind[0]) != self.left_behind[1]:
            lb = self.left_behind
            err = ('fork-aliases', f'after {self.n} arrivals: the ORIGINAL of a {lb[3]} copy taken after {lb[2]} arrivals changed: '
                                   f'{lb[1]} -> {_snapshot(lb[0])}')
        case = {'cfg': self.cfg, 'script': self.script, 'n': self.n}
        if err:
            key = f"C07:{self.cfg['cls']}:{err[0]}"
            if self._ctx.is_known(key):
                self._ctx.known_seen[key] += 1
                return
            self._holder['last'] = (case, key, err[1])
            raise _Violation(key, err[1])

    def teardown(self):
        if self.cfg is None:
            return
        cap = capacity(self.cfg)
        case = {'cfg': self.cfg, 'script': self.script, 'n': self.n}
        nt = self.cfg['st'] and cap is not None and self.n > cap and \
            (self.replaced or self.cfg['cls'] in ('interval', 'sequence'))
        self._ctx.record(self._sub, case, Result(True, nontrivial=bool(nt), labels=[self.cfg['cls']]))


SUBS = {'machine': run_scripted, 'scripted': run_scripted, 'enum': run_enum}


def replay(sub, case):
    return SUBS[sub](case)


def self_check():
    rng.self_check()


def run(ctx):
    ctx.rule, ctx.assumptions = RULE, ASSUMPTIONS
    # (b) exhaustive small scopes (shard 0 only: it is deterministic)
    if ctx.shard == 0:
        total_leaves = 0
        spaces = []
        for c in ('geometric', 'uniform', 'interval', 'sequence', 'batch'):
            for k in (1, 2, 3):
                for stt in (True, False):
                    ps = [None, 0, 1, 1 / 3, 2 / 3] if c == 'geometric' else [None]
                    for p in ps:
                        extra = 3 if c != 'uniform' else 2
                        cfg = {'cls': c, 'k': k, 'st': stt, 'positional_ctor': (k + int(stt)) % 2 == 0}
                        if c == 'geometric':
                            cfg['p'] = p
                        if stt and p in (None, 1):
                            cfg['none_targets'] = [1, 0, 0, 1]
                        elif p in (None, 2 / 3) and k != 2:
                            cfg['resend'] = [0, 1, 1]          # the same dict object arrives again (twice in a row)
                        case = {'cfg': cfg, 'n': k + extra, 'grid': 3}
                        res = run_enum(case)
                        ctx.record('enum', case, res)
                        if not res.ok:
                            if ctx.violation('enum', res.key, res.detail, case):
                                return
                        elif isinstance(res.detail, dict):
                            total_leaves += res.detail['leaves']
                            spaces.append(f"{c}/k={k}/st={stt}/p={p}/n={k + extra}: {res.detail['leaves']} leaves")
        ctx.extra['enumerated_leaves'] = total_leaves
        ctx.extra['exhaustive_subspaces'] = spaces[:60]
    # (a0) capacities beyond CPython's small-integer cache and NumPy-integer capacities (deterministic, one scripted run each)
    if ctx.shard == 0:
        for c in ('interval', 'uniform', 'geometric'):
            for k, npcap in ((257, False), (300, False), (4, True), (1, True)):
                cfg = {'cls': c, 'k': k, 'st': True, 'np_capacity': npcap}
                if c == 'geometric':
                    cfg['p'] = 1
                case = {'cfg': cfg, 'script': [3, 2 ** 52, 7, 11, 2 ** 53 - 1, 0, 5], 'n': k + 5}
                res = run_scripted(case)
                ctx.record('scripted', case, res)
                if not res.ok and ctx.violation('scripted', res.key, res.detail, case):
                    return
    if not ctx.machine_search('machine', StorageMachine, ctx.n(400, 40000), 40):
        return
    s = st.fixed_dictionaries({'cfg': configs(), 'script': gen.script, 'n': st.integers(0, 60 if ctx.thorough() else 30)})
    ctx.search('scripted', s, run_scripted, ctx.n(1500, 80000))
