"""C18 - results are reproducible from the global random seeds (DESIGN 3, C18)."""
import gc
import hashlib
import json
import os
import random
import subprocess
import sys
import time

import numpy as np
from hypothesis import strategies as st

from ..core import Result, VERIF
from .. import gen

LEVEL = 'exploration'
RULE = ("Configurations: explainer in {IncrementalPFI, IncrementalSage, BatchSage, IntervalSage} x storage in {UniformReservoir, "
        "GeometricReservoir, Interval, Sequence, Batch, TreeStorage} x imputer in {Marginal joint/product, Default, TreeImputer with/without "
        "use_storage and direct_predict_numeric}, static/dynamic, n_inner 1..2, BatchSage in both its normal and its original-SAGE mode, a seed pair and a float stream of 6..40 observations "
        "(mixed categorical/numerical for trees; tree seed explicit or left at its default). Differential replay: run A (seed both global "
        "generators, build fresh, stream) vs run B in the same process after INTERFERENCE (other storages/explainers/imputers/trackers/"
        "river metrics created and used - consuming global draws and allocating -, gc.collect(), time.time/time_ns/perf_counter/monotonic "
        "(and the process-time clocks) replaced by clocks the check owns: another origin, advancing by 0 s / 1 us / 2 s / one day per reading), then reseed and replay - this time the caller keeps every observation dict alive, whereas in run A they die with their eviction from the storage (with sliding-window storages the caller even recycles the dict OBJECTS from a pool of window + 1 objects); quick: 2 cases, thorough: every 8th case additionally run C in a FRESH "
        "interpreter (same PYTHONHASHSEED, different object addresses). Digest = float.hex of every importance value after every call + "
        "final storage contents (TreeStorage: reservoir contents per leaf key); must be bit-identical. Non-trivial: the digest CHANGES "
        "when the seeds change (third run) - otherwise the comparison is vacuous; distinct by case digest.")
ASSUMPTIONS = ["same interpreter configuration: PYTHONHASHSEED is pinned to 0 (set iteration order of str feature names feeds the "
               "product-strategy draws; by design out of scope)", "cross-version / cross-platform reproducibility is not claimed"]

TREE_NAMES = ['c', 'n1', 'n2']


def _model(kind):
    if kind == 'tree':
        def model(x):
            if isinstance(x, dict):
                return {'output': 2.0 * x['n1'] - x['n2'] + (1.5 if x['c'] == 1.0 else (-0.5 if x['c'] == 2.0 else 0.0))}
            return [model(r) for r in x]
        return model

    def model(x):
        if isinstance(x, dict):
            v = list(x.values())
            return {'output': v[0] - 2.0 * v[-1] + 0.25 * v[0] * v[-1]}
        return [model(r) for r in x]
    return model


def _loss(y, p):
    if 'output' in p:
        return (y - p['output']) ** 2
    return sum((v - 0.1 * y) ** 2 * (i + 1) for i, (k, v) in enumerate(sorted(p.items())))


def _river_label_model():
    """A river-style classifier function with STRING labels behind RiverWrapper (one-hot over the labels seen so far)."""
    from ixai.utils.wrappers import RiverWrapper

    def predict_one(x):
        v = list(x.values())
        s = v[0] - v[-1]
        return 'neg' if s < -0.5 else ('mid' if s < 0.5 else 'pos')
    return RiverWrapper(predict_one)


_RIVER_MODEL = {}


def _river_bound_method():
    """ONE trained river classifier with string labels for the whole process: its bound predict_one is handed to every replay, as a user
    who explains the same model twice would do (validate_model_function wraps it into a fresh RiverWrapper each time)."""
    if 'm' not in _RIVER_MODEL:
        from river import naive_bayes
        m = naive_bayes.GaussianNB()
        rs = random.Random(12345)
        for _ in range(60):
            x = {'f0': rs.uniform(-2, 2), 'f1': rs.uniform(-2, 2)}
            s_ = x['f0'] - x['f1']
            m.learn_one(x, 'neg' if s_ < -0.7 else ('mid' if s_ < 0.7 else 'pos'))
        _RIVER_MODEL['m'] = m
    return _RIVER_MODEL['m'].predict_one


def build(case):
    from ixai.explainer import IncrementalPFI
    from ixai.explainer.sage import IncrementalSage, BatchSage, IntervalSage
    from ixai.storage import (UniformReservoirStorage, GeometricReservoirStorage, IntervalStorage, SequenceStorage, BatchStorage,
                              TreeStorage)
    from ixai.imputer import MarginalImputer, DefaultImputer, TreeImputer
    tree = case['storage'] == 'tree'
    names = TREE_NAMES if tree else [f'f{i}' for i in range(case['d'])]
    model = _model('tree' if tree else 'plain')
    if case.get('model_kind') == 'river_str' and not tree:
        model = _river_label_model()
    if case.get('model_kind') == 'river_bound' and not tree:
        model = _river_bound_method()
        names = ['f0', 'f1']
    k = case['k']
    s = case['storage']
    if case['cls'] == 'interval':
        storage = IntervalStorage(size=k, store_targets=True)
    elif case['cls'] == 'batch' and not tree:
        storage = BatchStorage(store_targets=True)
    elif s == 'uniform':
        storage = UniformReservoirStorage(size=k, store_targets=False)
    elif s == 'geometric':
        storage = GeometricReservoirStorage(size=k, store_targets=False)
    elif s == 'interval':
        storage = IntervalStorage(size=k, store_targets=True)
    elif s == 'sequence':
        storage = SequenceStorage(store_targets=True)
    elif s == 'batch':
        storage = BatchStorage(store_targets=True)
    else:
        kw = {} if case.get('tree_seed') is None else {'seed': case['tree_seed']}
        storage = TreeStorage(cat_feature_names=['c'], num_feature_names=['n1', 'n2'], max_depth=3, leaf_reservoir_length=3,
                              grace_period=case.get('grace', 8), **kw)
    im = case['imputer']
    if tree and im.startswith('tree'):
        imputer = TreeImputer(model, storage_object=storage, use_storage='storage' in im, direct_predict_numeric='direct' in im)
    elif im == 'default' or tree:
        imputer = DefaultImputer(model, {n: (1.0 if n == 'c' else 0.5) for n in names})
    else:
        imputer = MarginalImputer(model, im if im in ('joint', 'product') else 'joint', storage)
    cls = case['cls']
    if cls == 'pfi':
        ex = IncrementalPFI(model, _loss, names, storage=storage, imputer=imputer, n_inner_samples=case['n_inner'],
                            smoothing_alpha=0.2, dynamic_setting=case['dynamic'])
    elif cls == 'sage':
        ex = IncrementalSage(model, _loss, names, storage=storage, imputer=imputer, n_inner_samples=case['n_inner'],
                             smoothing_alpha=0.2, dynamic_setting=case['dynamic'])
    elif cls == 'batch':
        ex = BatchSage(model, names, _loss, n_inner_samples=case['n_inner'], storage=storage, imputer=imputer)
    else:
        ex = IntervalSage(model, names, _loss, n_inner_samples=case['n_inner'], interval_length=3, storage=storage, imputer=imputer)
    return ex, storage, names


def stream_of(case, names):
    rs = random.Random(case['stream_seed'])
    rows = []
    for t in range(case['T']):
        phase = (t * 3) // max(case['T'], 1)
        x = {}
        for n in names:
            if n == 'c':
                x[n] = rs.choice([1.0, 2.0, 3.0])   # categories are numeric codes, as in the repository's own tests
            else:
                x[n] = round(rs.uniform(-2, 2), 3) + (1.0 if phase == 1 else 0.0)
        vals = [v for v in x.values() if not isinstance(v, str)]
        y = (vals[0] if phase != 2 else -vals[0]) + 0.1 * rs.random()
        rows.append((x, y))
    return rows


def storage_digest(storage):
    if hasattr(storage, 'data_reservoirs'):
        out = {}
        for f, res in storage.data_reservoirs.items():
            out[repr(f)] = {k: repr(list(v.get_data()[0])) for k, v in sorted(res.items())}
        return json.dumps(out, sort_keys=True)
    xs, ys = storage.get_data()
    return repr((list(xs), list(ys)))


def execute(case, seeds=None, keep_alive=False):
    """keep_alive: the caller holds on to every observation dict it passed in (no address is ever reused); otherwise the dicts live
    only as long as the storage keeps them and CPython recycles their addresses - the results must not notice the difference."""
    a, b = seeds or case['seeds']
    random.seed(a)
    np.random.seed(b)
    ex, storage, names = build(case)
    h = hashlib.sha256()
    n_diff = 0
    held = []
    # a sliding-window storage forgets an observation after `window` further updates: a caller may then RECYCLE the dict object
    # for a new observation (an object pool) - the same addresses come back with other contents
    window = None
    if case['cls'] == 'interval' or (case['cls'] in ('pfi', 'sage') and case['storage'] == 'interval'):
        window = case['k']
    elif case['cls'] in ('pfi', 'sage') and case['storage'] == 'sequence':
        window = 1
    pool = [dict() for _ in range(window + 1)] if (window and not keep_alive) else None      # the smallest legal pool
    for t, (x, y) in enumerate(stream_of(case, names)):
        kw = {'verbose': False} if case['cls'] in ('batch', 'interval') else {}
        if case['cls'] == 'batch' and case.get('original'):
            kw['original_sage'] = True          # the "original SAGE" entry point has random draws of its own
        if pool is not None:
            obs = pool[t % len(pool)]
            obs.clear()
            obs.update(x)
        else:
            obs = dict(x)
        if keep_alive:
            held.append(obs)
        out = ex.explain_one(obs, y, **kw)
        del obs
        h.update(repr(sorted((repr(k), float(v).hex()) for k, v in out.items())).encode())
    h.update(storage_digest(storage).encode())
    return h.hexdigest()


def interfere(level):
    """Use other library objects (consuming global draws, allocating), collect garbage, patch the clocks."""
    from ixai.storage import UniformReservoirStorage, GeometricReservoirStorage
    from ixai.explainer import IncrementalPFI
    from ixai.utils.tracker import WelfordTracker, MultiValueTracker
    from river import metrics
    junk = [object() for _ in range(level * 37 + 11)]
    u = UniformReservoirStorage(size=4)
    g = GeometricReservoirStorage(size=3)
    for i in range(30 + level):
        u.update({'a': i}), g.update({'a': i})
    m = _model('plain')
    ex = IncrementalPFI(m, _loss, ['f0', 'f1'])
    for i in range(6):
        ex.explain_one({'f0': float(i), 'f1': 1.0 - i}, 0.5 * i)
    t = MultiValueTracker(WelfordTracker())
    t.update({'a': 1.0, 'b': 2.0})
    mm = metrics.MSE()
    mm.update(1.0, 2.0)
    from ixai.utils.wrappers import RiverWrapper
    other = RiverWrapper(lambda x: ['alpha', 'omega', 'neg'][int(x['a']) % 3])
    for i in range(4):
        other({'a': i})
    random.random(), np.random.rand(3)
    del junk
    gc.collect()
    return [u, g, ex, t]   # keep some alive so that allocation layout differs


class PatchedClocks:
    """The check owns the clocks during the replay: they start at an arbitrary offset and ADVANCE by `step` seconds per reading
    (0 = frozen, 1e-6 = a very fast machine, 2.0 / 86400.0 = a very slow one), whereas the first run saw the real clocks."""

    def __init__(self, offset, step=0.0):
        self.offset = offset
        self.step = step
        self.reads = 0
        self.saved = {}

    def _now(self, base):
        self.reads += 1
        return base + self.offset + self.step * self.reads

    def __enter__(self):
        for name in ('time', 'time_ns', 'perf_counter', 'monotonic', 'perf_counter_ns', 'monotonic_ns', 'process_time', 'process_time_ns'):
            self.saved[name] = getattr(time, name)
        time.time = lambda: self._now(1.7e9)
        time.time_ns = lambda: int(self._now(1.7e9) * 1e9)
        time.perf_counter = lambda: self._now(12345.0)
        time.monotonic = lambda: self._now(999.0)
        time.perf_counter_ns = lambda: int(self._now(12345.0) * 1e9)
        time.monotonic_ns = lambda: int(self._now(999.0) * 1e9)
        time.process_time = lambda: self._now(5.0)
        time.process_time_ns = lambda: int(self._now(5.0) * 1e9)
        return self

    def __exit__(self, *a):
        for name, f in self.saved.items():
            setattr(time, name, f)


def run_case(case, fresh_interpreter=False):
    try:
        da = execute(case)
    except Exception as e:
        return Result(False, key=f'C18:exception:{type(e).__name__}', detail=f'{e!r} for {case}')
    keep = interfere(case.get('interference', 1))
    try:
        with PatchedClocks(case.get('clock_offset', 1000.0), case.get('clock_step', 0.0)):
            db = execute(case, keep_alive=True)
    except Exception as e:
        return Result(False, key=f'C18:replay-raises:{type(e).__name__}',
                      detail=f'the first run succeeded, the replay after interference raised {e!r} for {case}')
    del keep
    tag = f"{case['cls']}:{case['storage']}:{case['imputer']}" + (':' + case['model_kind'] if case.get('model_kind') in ('river_str', 'river_bound') else '')
    default_seed = case['storage'] == 'tree' and case.get('tree_seed') is None
    if da != db:
        return Result(False, key=f"C18:replay-differs:{case['storage']}:{'default-tree-seed' if default_seed else 'seeded'}",
                      detail=f'{tag}: two replays with seeds {case["seeds"]} in one process differ (digest {da[:12]} vs {db[:12]})')
    if fresh_interpreter:
        env = dict(os.environ, PYTHONHASHSEED='0', IXV_REPO=os.environ.get('IXV_REPO', '/repo'))
        p = subprocess.run([sys.executable, '-m', 'ixv.props.c18', json.dumps(case)], cwd=VERIF, env=env, capture_output=True, text=True)
        lines = [l for l in p.stdout.splitlines() if l.startswith('DIGEST ')]
        if p.returncode != 0 or not lines:
            return Result(False, key='C18:harness:child-failed', detail=p.stderr[-400:])
        if lines[0].split()[1] != da:
            return Result(False, key=f"C18:fresh-interpreter-differs:{case['storage']}",
                          detail=f'{tag}: a fresh interpreter with the same seeds gives another digest')
    other = execute(case, seeds=[case['seeds'][0] + 1, case['seeds'][1] + 1])
    labels = [tag, 'fresh_interpreter' if fresh_interpreter else 'same_process']
    if default_seed:
        labels.append('default_tree_seed')
    return Result(True, nontrivial=other != da, labels=labels)


def combos():
    """The configuration product is ENUMERATED (not sampled): explainer x storage x imputer (x tree seed default/explicit)."""
    out = []
    for cls in ('pfi', 'sage', 'batch', 'interval'):
        for storage in ('uniform', 'geometric', 'interval', 'sequence', 'batch'):
            for imputer in ('joint', 'product', 'default'):
                out.append((cls, storage, imputer, 0))
    for cls in ('pfi', 'sage', 'batch'):
        out.append((cls, 'uniform', 'joint', 'river_str'))
        out.append((cls, 'interval', 'product', 'river_str'))
        out.append((cls, 'geometric', 'joint', 'river_bound'))
    for cls in ('pfi', 'sage'):   # BatchSage/IntervalSage need get_data(), which TreeStorage does not offer
        for imputer in ('tree', 'tree+storage', 'tree+direct', 'tree+storage+direct', 'default'):
            for tree_seed in (None, 7):
                out.append((cls, 'tree', imputer, tree_seed))
    return out


@st.composite
def cases(draw, combo):
    """Integers are drawn 'reversed' so that Hypothesis' first (simplest) example is the RICHEST configuration (long stream,
    large reservoir, two inner samples) rather than the degenerate one."""
    cls, storage, imputer, tree_seed = combo

    def rev(lo, hi):
        return hi - draw(st.integers(0, hi - lo))
    T = rev(10, 40) if storage == 'tree' else rev(6, 30)
    if cls == 'batch':
        T = min(T, 10)
    return {'cls': cls, 'storage': storage, 'imputer': imputer, 'd': rev(1, 3), 'k': rev(1, 4),
            'n_inner': rev(1, 2), 'dynamic': draw(st.booleans()), 'T': T,
            'seeds': [draw(gen.seed32) % (2 ** 31), draw(gen.seed32) % (2 ** 31)], 'stream_seed': draw(st.integers(0, 10 ** 6)),
            'tree_seed': tree_seed if storage == 'tree' else None, 'model_kind': tree_seed if tree_seed in ('river_str', 'river_bound') else 'plain',
            'grace': draw(st.sampled_from([5, 8, 20])),
            'interference': rev(0, 5), 'clock_offset': draw(st.sampled_from([1000.0, 0.0, -5e8])),
            'clock_step': draw(st.sampled_from([2.0, 0.0, 1e-6, 86400.0])), 'original': cls == 'batch' and storage != 'tree' and draw(st.sampled_from([True, False]))}


SUBS = {'replay': run_case}


def replay(sub, case):
    return run_case(case, fresh_interpreter=True)


def run(ctx):
    ctx.rule, ctx.assumptions = RULE, ASSUMPTIONS
    counter = {'n': 0}
    every = 8 if ctx.thorough() else 30
    all_combos = combos()
    per = 1 if not ctx.thorough() else max(1, 6400 // (len(all_combos) * ctx.nshards))

    def rc(case):
        # which cases get the (expensive) fresh-interpreter run is a pure function of the case, so that re-execution is stable
        from ..core import digest
        pick = int(digest(case), 16) % every == 0 or (case['storage'] == 'tree' and case['tree_seed'] is None and case['imputer'] == 'tree+storage')
        return run_case(case, fresh_interpreter=pick)

    for i, combo in enumerate(all_combos):
        ctx.search(f'replay[{i}]', cases(combo), rc, per + (1 if combo[1] == 'tree' else 0), shrink=False)
    ctx.extra['configuration_product_enumerated'] = len(all_combos)


if __name__ == '__main__':
    # child mode: print the digest of one case in a fresh interpreter
    import warnings
    warnings.filterwarnings('ignore')
    sys.path.insert(0, os.environ.get('IXV_REPO', '/repo'))
    c = json.loads(sys.argv[1])
    print('DIGEST', execute(c))
