"""C03 - incremental SAGE credits each feature its loss reduction along the drawn chain (DESIGN 3, C03)."""
import math
import random

import numpy as np
from hypothesis import strategies as st

from ..core import Result
from ..exact import Q
from .. import cfgs, ref, refx

LEVEL = 'exploration'
RULE = ("Config = {static,dynamic} x alpha x n_inner (constructor and per-call override) x d in 1..5 x storage kind x imputer "
        "(marginal joint/product, default) x feature-name type x loss_bigger_is_better x update_storage flags, scalar and multi-label "
        "models whose label set depends on the input, linear and nonlinear losses, streams of 2..12 observations (thorough ..40), both "
        "global generators seeded from the case. The feature order ACTUALLY DRAWN is read off the recorded imputer calls (k-th subset must "
        "be the names not yet revealed: strictly nested, sizes d-1..0). An independent exact-rational reference recomputes L0 = loss of "
        "the normalised running-statistic prediction, L_k = loss of the label-wise mean of the n_inner recorded outputs (missing label = "
        "0), contribution = L_{k-1}-L_k, and the running statistics of importance, variance (against the UPDATED importance), marginal "
        "loss, model loss (+1 offset when loss_bigger_is_better) and marginal prediction; compared on EVERY prefix, == in exact mode, "
        "within 64(d+2)(t+1)eps*scale in float mode. Route (b): with DefaultImputer / SequenceStorage the imputed predictions are "
        "recomputed without reading any draw. Non-trivial: d>=2, some call with n_inner>=2, nonlinear loss, >=2 explained observations, "
        ">=2 different orders seen; distinct by case digest.")
ASSUMPTIONS = ["fractions.Fraction arithmetic", "the recording imputer delegates unchanged to the library imputer",
               "float mode: tolerance scale = 4*#labels*max|coef|*(max|p|+|y|+1)^2 per loss call"]


def check_stream(cfg, key_prefix='C03', full=True, on_call=None):
    """Runs the stream through IncrementalSage with recording doubles and compares with SageRef after every call."""
    h = cfgs.Harness(cfg)
    random.seed(cfg['seeds'][0])
    np.random.seed(cfg['seeds'][1])
    try:
        ex = h.sage()
    except Exception as e:
        return Result(False, key=f'{key_prefix}:construct:{type(e).__name__}', detail=f'constructor raised {e!r}')
    r = refx.SageRef(cfg)
    cmp = refx.Cmp(h.mode)
    d = cfg['d']
    any_inner2 = False
    prev_row = None
    pre = h.prefill(ex)            # observations stored before the first explain_one: the first call must still only seed
    if pre:
        prev_row = pre[-1]
    for t, row in enumerate(cfg['stream']):
        x, y = h.row(row)
        n_inner = row.get('n_inner')
        upd = row.get('upd', True)
        mark = len(h.imputer.calls)
        kw = {}
        if n_inner is not None:
            kw['n_inner_samples'] = n_inner
        if not upd:
            kw['update_storage'] = False
        try:
            ret = ex.explain_one(x, y, **kw)
        except Exception as e:
            return Result(False, key=f'{key_prefix}:exception:{type(e).__name__}',
                          detail=f'explain_one call {t + 1} raised {e!r} (names {cfg["names"]!r})')
        calls = h.imputer.calls[mark:]
        eff_inner = n_inner if n_inner is not None else cfg['n_inner']
        if t == 0:
            if calls or ex.importance_values != {}:
                return Result(False, key=f'{key_prefix}:first-call', detail='the first observation must only seed the storage')
            prev_row = (x, y) if upd else prev_row
            continue
        if eff_inner >= 2:
            any_inner2 = True
        err = r.step(x, y, calls, eff_inner)
        if err:
            return Result(False, key=f'{key_prefix}:{err[0]}', detail=f'call {t + 1}: {err[1]}')
        if r.ill_conditioned and h.mode == 'float':
            # the normaliser of the marginal prediction is (near) zero: a discontinuity, float results are not comparable
            return Result(True, nontrivial=False, labels=['float_ill_conditioned_normaliser_discarded'])
        # route (b): predictions recomputed without reading any draw
        if full:
            err = recompute_route(h, r, cfg, x, calls, prev_row)
            if err:
                return Result(False, key=f'{key_prefix}:{err[0]}', detail=f'call {t + 1}: {err[1]}')
        want = r.expected()
        tol = 64 * (d + 2) * (t + 1) * refx.EPS * r.loss.scale
        for attr in ('importance_values', 'variances', 'marginal_prediction'):
            got = getattr(ex, attr)
            bad = cmp.dict(got, want[attr], tol if attr != 'variances' else tol * r.loss.scale)
            if bad:
                return Result(False, key=f'{key_prefix}:{attr}', detail=f'call {t + 1}: {bad}')
        for attr in ('marginal_loss', 'model_loss'):
            if not cmp.num(getattr(ex, attr), want[attr], tol):
                return Result(False, key=f'{key_prefix}:{attr}',
                              detail=f'call {t + 1}: {attr}={getattr(ex, attr)!r}, reference {want[attr]!r}')
        bad = cmp.dict(ret, want['importance_values'], tol)
        if bad:
            return Result(False, key=f'{key_prefix}:return-value', detail=f'call {t + 1}: returned dict: {bad}')
        bad = accessors_stay_read_only(ex, ret, want, cmp, tol, r.loss.scale, t)
        if bad:
            return Result(False, key=f'{key_prefix}:{bad[0]}', detail=f'call {t + 1}: {bad[1]}')
        if upd:
            prev_row = (x, y)
    nt = (d >= 2 and any_inner2 and h.loss.nonlinear() and r.explained >= 2 and len(r.orders) >= 2)
    labels = [h.mode, cfg['storage']['cls'], cfg['imputer'].get('strategy', 'default'),
              'dynamic' if cfg['dynamic'] else 'static', f'd={d}', f'orders_seen={min(len(r.orders), 6)}']
    if len(cfg['model']['outs']) > 1:
        labels.append('multi_label')
    if cfg.get('extra'):
        labels.append('unexplained_extra_features')
    if cfg['loss'].get('offset'):
        labels.append('loss_offset')
    labels += variant_labels(cfg)
    if cmp.exactness_lost:
        labels.append('exactness_lost')
    if h.mode == 'exact' and cmp.exact_agreements:
        labels.append('agreed_exactly')
    kinds = {type(n).__name__ for n in cfg['names']}
    labels.append('names:' + '+'.join(sorted(kinds)))
    res = Result(True, nontrivial=nt, labels=labels)
    res.detail = {'orders': len(r.orders), 'd': d}
    return res


def accessors_stay_read_only(ex, ret, want, cmp, tol, scale, t):
    """The estimates are what the property says WHATEVER the caller does in between: calling the read-only accessors in any order and
    editing dictionaries the explainer handed out must not change what importance_values / variances report."""
    if not want['importance_values']:
        return None
    if t % 2 == 0:
        try:
            ex.get_normalized_importance_values('sum')
            ex.get_normalized_importance_values('delta')
            ex.get_confidence_bound(0.25)
        except Exception:
            pass          # C16 owns these accessors; here only their side effects matter
    for d_ in (ret, ex.importance_values, ex.variances):
        if isinstance(d_, dict) and d_:
            k0 = next(iter(d_))
            d_[k0] = 123456789
            d_.pop(k0)
    bad = cmp.dict(ex.importance_values, want['importance_values'], tol)
    if bad:
        return 'accessor-side-effect', f'after the accessors were called / returned dictionaries were edited, importance_values: {bad}'
    bad = cmp.dict(ex.variances, want['variances'], tol * scale)
    if bad:
        return 'accessor-side-effect', f'after the accessors were called / returned dictionaries were edited, variances: {bad}'
    return None


def variant_labels(cfg):
    out = []
    m = cfg['model']
    for k in ('positional', 'opt', 'rank_order', 'out_scale', 'array_out', 'memo'):
        if m.get(k):
            out.append('model_' + k)
    if cfg.get('prefill'):
        out.append('prefilled_storage')
    if cfg.get('defaults_container', 'dict') != 'dict' and cfg['imputer']['kind'] == 'default':
        out.append('defaults_' + cfg['defaults_container'])
    if any(r.get('perm') for r in cfg.get('stream', [])):
        out.append('key_order_varies')
    return out


def recompute_route(h, r, cfg, x, calls, prev_row):
    """DefaultImputer: predictions must be model({**x, f: default_f}); SequenceStorage: the only background row is
    the last stored observation."""
    im = cfg['imputer']
    if im['kind'] == 'default':
        bg = {n: refx.lift(v) for n, v in h.defaults.items()}
    elif cfg['storage']['cls'] == 'sequence' and prev_row is not None:
        bg = refx.lift_dict(prev_row[0])
    else:
        return None
    xq = refx.lift_dict(x)
    # a float model sums terms that may cancel (1 + 2a + 14 + 1 - 14a with a = fl(4/3) is 0 exactly, 16 eps in floats): its rounding
    # error is relative to the size of the TERMS (times the output scale), not to the size of the result
    sc = cfg['model'].get('out_scale')
    fac = abs(float(sc[0])) * 10.0 ** sc[1] if sc else 1.0
    slack = 0.0 if cfg['mode'] == 'exact' else 64 * refx.EPS * getattr(h.model, 'term_scale', 0.0) * fac
    for subset, _typ, n_samples, preds, _x in calls:
        sub = [refx.norm_key(s) for s in subset]
        want = r.model.pure({**xq, **{f: bg[f] for f in sub}})
        for p in preds:
            pq = refx.lift_dict(p)
            if set(pq) != set(want) or any(abs(float(pq[l] - want[l])) > 1e-9 * (1 + abs(float(want[l]))) + slack for l in want):
                return 'recomputed-prediction', (f'imputed prediction {p!r} for subset {sub!r} differs from the model on x with those '
                                                 f'features replaced by the background {want!r}')
    return None


def with_float_fallback(fn, cfg, prefix):
    """Exact rationals are an observation aid: if the implementation applies float-only (NumPy) functions to losses and raises
    TypeError on them, the float twin of the same case decides."""
    res = fn(cfg)
    if not res.ok and cfg['mode'] == 'exact' and res.key == f'{prefix}:exception:TypeError':
        if cfg['loss'].get('kind') == '01':
            return Result(True, nontrivial=False, labels=['exact_arithmetic_unsupported', 'discontinuous_loss_not_compared_in_floats'])
        res = fn(dict(cfg, mode='float'))
        res.labels = list(res.labels) + ['exact_arithmetic_unsupported']
    return res


def run_case(cfg):
    return with_float_fallback(lambda c: check_stream(c, 'C03', full=True), cfg, 'C03')


SUBS = {'stream': run_case}


def replay(sub, case):
    return run_case(case)


def self_check():
    ref.self_check()


def run(ctx):
    ctx.rule, ctx.assumptions = RULE, ASSUMPTIONS
    tmax = 40 if ctx.thorough() else 12
    ctx.search('stream', cfgs.config_st(tmax=tmax), run_case, ctx.n(1200, 160000))
