"""C10 - Welford / exponential smoothing trackers equal their closed forms (DESIGN 3, C10)."""
import math

import numpy as np
from hypothesis import strategies as st

from ..core import Result
from ..exact import Q, enc
from .. import gen, ref

LEVEL = 'exploration'
RULE = ("Streams of exact numbers (ints, rationals, floats lifted exactly) of length 0..60 (thorough ..400) are pushed "
        "through the shipped WelfordTracker.update / ExponentialSmoothingTracker.update as ixv.exact.Q values, so "
        "mean/var/get() are exact rationals and are compared with == against closed forms (arithmetic mean, population "
        "variance, sum alpha(1-alpha)^(n-i) v_i) after EVERY update (in some cases the tracker is deep- or shallow-copied mid-stream: the copy carries on, the original must stay); plus N, std, linearity T(a*u+b*w)=a*T(u)+b*T(w), "
        "min<=mean<=max, smoothed value in the convex hull of {0} and the inputs; a float/NumPy-scalar twin (float64/32, signed and UNSIGNED integer scalars, decimal.Decimal streams with a Decimal alpha, and values handed over in one reused 0-d array buffer) is compared "
        "within a rounding tolerance. Non-trivial: >=3 distinct values, non-monotone, mixed sign (and alpha not in {0,1} "
        "for smoothing); distinct by SHA-256 of the canonical case JSON.")
ASSUMPTIONS = ["fractions.Fraction arithmetic is exact", "evidence by search, not the inductive proof the property text mentions"]


def _vals(case):
    return [Q(v) for v in case['values']]


def _nontrivial(vals, alpha=None):
    if len(set(vals)) < 3:
        return False
    inc = all(a <= b for a, b in zip(vals, vals[1:]))
    dec = all(a >= b for a, b in zip(vals, vals[1:]))
    if inc or dec:
        return False
    if not (min(vals) < 0 < max(vals)):
        return False
    if alpha is not None and (alpha == 0 or alpha == 1):
        return False
    return True


def run_welford(case):
    from ixai.utils.tracker import WelfordTracker
    vals = _vals(case)
    reads = case.get('reads') or [1]
    t = WelfordTracker()
    if not (t.N == 0 and t.mean == 0 and t.var == 0 and t.get() == 0 and t.std == 0):
        return Result(False, key='C10:welford:empty', detail='empty tracker does not report N=0, mean=0, var=0')
    seen = []
    copy_at = case.get('copy_at')
    for i, v in enumerate(vals):
        if copy_at is not None and i == copy_at % (len(vals) + 1) and i > 0:
            # the tracker is copied mid-stream (the explainers deep-copy trackers; MultiValueTracker copies its base tracker): the copy
            # carries on and must report the statistics of ALL values, the original must stay as it was
            import copy as _copy
            frozen = (t.N, t.mean, t.var)
            old = t
            t = _copy.deepcopy(old) if case.get('copy_kind', 'deep') == 'deep' else _copy.copy(old)
            if (t.N, t.mean, t.var) != frozen:
                return Result(False, key='C10:welford:copy', detail=f'a {case.get("copy_kind", "deep")} copy after {i} updates reports N/mean/var {(t.N, t.mean, t.var)!r}, the original {frozen!r}')
            t.update(v)
            if (old.N, old.mean, old.var) != frozen:
                return Result(False, key='C10:welford:copy-aliases', detail='updating a copy changed the original tracker')
            seen.append(v)
            continue
        r = t.update(v)
        seen.append(v)
        if r is not t:
            return Result(False, key='C10:welford:update-return', detail='update does not return the tracker')
        if t.N != len(seen):
            return Result(False, key='C10:welford:N', detail=f'N={t.N} after {len(seen)} updates')
        m, va = ref.mean(seen), ref.pvar(seen)
        mode = reads[i % len(reads)]
        if mode == 3 and i + 1 < len(vals):
            continue
        if mode == 0 and not (t() == m):
            return Result(False, key='C10:welford:mean', detail=f'step {i}: tracker() = {t()!r} != {m!r}')
        if mode == 2 and t.var != va:
            return Result(False, key='C10:welford:var', detail=f'step {i}: var {t.var!r} != {va!r} (read before the mean)')
        if not (t.mean == m and t.get() == m and t() == m):
            return Result(False, key='C10:welford:mean', detail=f'step {i}: mean {t.mean!r} != {m!r}')
        if t.var != va:
            return Result(False, key='C10:welford:var', detail=f'step {i}: var {t.var!r} != {va!r}')
        sd = t.std
        want = math.sqrt(float(va))
        if not (isinstance(sd, (int, float, Q)) and abs(float(sd) - want) <= 4e-16 * want + 1e-300):
            return Result(False, key='C10:welford:std', detail=f'step {i}: std {sd!r} != sqrt(var) {want!r}')
        if not (min(seen) <= t.mean <= max(seen)):
            return Result(False, key='C10:welford:mean-range', detail=f'step {i}: mean outside [min,max]')
    labels = ['len0'] if not vals else []
    if any(isinstance(v, float) for v in case['values']):
        labels.append('has_float')
    return Result(True, nontrivial=_nontrivial(vals), labels=labels)


def run_es(case):
    from ixai.utils.tracker import ExponentialSmoothingTracker
    vals = _vals(case)
    alpha = Q(case['alpha'])
    reads = case.get('reads') or [1]
    try:
        t = ExponentialSmoothingTracker(alpha=alpha)
    except Exception as e:
        # the rational alpha is this harness's device; what the property covers is that every alpha in [0, 1] given as a float works
        try:
            ExponentialSmoothingTracker(alpha=float(alpha))
        except Exception as e2:
            return Result(False, key='C10:es:construct', detail=f'ExponentialSmoothingTracker(alpha={float(alpha)!r}) raised {e2!r}')
        return Result(True, nontrivial=False, labels=['exact_alpha_unsupported'], detail=repr(e))
    if not (t.N == 0 and t.get() == 0):
        return Result(False, key='C10:es:empty', detail='fresh smoothing tracker is not 0')
    seen = []
    copy_at = case.get('copy_at')
    for i, v in enumerate(vals):
        if copy_at is not None and i == copy_at % (len(vals) + 1) and i > 0:
            import copy as _copy
            frozen = (t.N, t.get())
            old = t
            t = _copy.deepcopy(old) if case.get('copy_kind', 'deep') == 'deep' else _copy.copy(old)
            if (t.N, t.get()) != frozen:
                return Result(False, key='C10:es:copy', detail='a copy of a warm smoothing tracker reports other values than the original')
            t.update(v)
            if (old.N, old.get()) != frozen:
                return Result(False, key='C10:es:copy-aliases', detail='updating a copy changed the original tracker')
            seen.append(v)
            continue
        t.update(v)
        seen.append(v)
        if t.N != len(seen):
            return Result(False, key='C10:es:N', detail=f'N={t.N} after {len(seen)} updates')
        want = ref.smooth(seen, alpha)
        # the read path and the read order are part of the history: __call__ first, get() first, or no read at all at this step
        mode = reads[i % len(reads)]
        if mode == 3 and i + 1 < len(vals):
            continue
        got = (t(), t.get()) if mode in (0, 3) else ((t.get(), t()) if mode == 1 else (t(), t()))
        if not (got[0] == want and got[1] == want):
            return Result(False, key='C10:es:value', detail=f'step {i}: read {got!r} != closed form {want!r} (alpha={alpha}, read mode {mode})')
        lo, hi = min(seen + [Q(0)]), max(seen + [Q(0)])
        if not (lo <= t.get() <= hi):
            return Result(False, key='C10:es:hull', detail=f'step {i}: smoothed value outside hull of 0 and inputs')
    labels = []
    if alpha == 0:
        labels.append('alpha0')
    if alpha == 1:
        labels.append('alpha1')
    return Result(True, nontrivial=_nontrivial(vals, alpha), labels=labels)


def run_linear(case):
    """T(a*u + b*w) == a*T(u) + b*T(w) for the Welford mean and the smoothed value."""
    from ixai.utils.tracker import WelfordTracker, ExponentialSmoothingTracker
    u = [Q(v) for v in case['u']]
    w = [Q(v) for v in case['w']]
    n = min(len(u), len(w))
    u, w = u[:n], w[:n]
    a, b, alpha = Q(case['a']), Q(case['b']), Q(case['alpha'])
    try:
        ExponentialSmoothingTracker(alpha=alpha)
    except Exception:
        return Result(True, nontrivial=False, labels=['exact_alpha_unsupported'])
    for name, mk in (('welford', WelfordTracker), ('es', lambda: ExponentialSmoothingTracker(alpha=alpha))):
        tu, tw, tc = mk(), mk(), mk()
        for x, y in zip(u, w):
            tu.update(x), tw.update(y), tc.update(a * x + b * y)
            if tc.get() != a * tu.get() + b * tw.get():
                return Result(False, key=f'C10:{name}:linearity', detail=f'T(a u + b w) != a T(u) + b T(w) at n={tu.N}')
    return Result(True, nontrivial=n >= 3 and a != 0 and b != 0 and len(set(u)) >= 2 and len(set(w)) >= 2)


_NP = {'f64': np.float64, 'f32': np.float32, 'i64': np.int64, 'i32': np.int32, 'pyfloat': float, 'pyint': int,
       # unsigned NumPy scalars (0 - np.uint8(3) wraps around, np.uint8(3) - 0 does not) ...
       'u8': lambda v: np.uint8(abs(v) % 256), 'u16': lambda v: np.uint16(abs(v) % 65536), 'u64': lambda v: np.uint64(abs(v)),
       # ... and 'buf': every value arrives in ONE reused 0-d float64 array (the out= buffer of a reduction): the value counts as it
       # was when it was supplied
       'buf': float,
       # decimal.Decimal streams (with a Decimal alpha for the smoothing tracker): numbers that do not mix with floats
       'decimal': lambda v: __import__('decimal').Decimal(int(v))}


def run_numpy(case):
    """Float / NumPy-scalar inputs: results within rounding of the exact closed forms, finite, N counts."""
    from ixai.utils.tracker import WelfordTracker, ExponentialSmoothingTracker
    conv = _NP[case['dtype']]
    raw = case['values']
    if case['dtype'] in ('i64', 'i32', 'pyint', 'u8', 'u16', 'u64', 'decimal'):
        xs = [conv(int(v)) for v in raw]
    else:
        xs = [conv(v) for v in raw]
    exact = [Q(float(x)) if not isinstance(x, (int, np.integer)) else Q(int(x)) for x in xs]
    alpha = case['alpha']
    if case['dtype'] == 'decimal':
        import decimal
        exact = [Q(int(x)) for x in xs]
        case = dict(case, alpha_type='decimal')
    # alpha arrives as a Python float, a NumPy float (np.linspace sweeps, 1/np.sqrt(n)) or - at the boundaries - as the int 0 / 1
    akind = case.get('alpha_type', 'float')
    a_arg = np.float64(alpha) if akind == 'f64' else (int(alpha) if akind == 'int' and alpha in (0.0, 1.0) else alpha)
    if akind == 'decimal':
        a_arg = decimal.Decimal(repr(alpha))       # 0.5 -> Decimal('0.5'): the exact value differs from the binary float by < 1e-17
    try:
        w, e = WelfordTracker(), ExponentialSmoothingTracker(alpha=a_arg)
    except Exception as ex:
        return Result(False, key='C10:es:construct', detail=f'ExponentialSmoothingTracker(alpha={a_arg!r}) raised {ex!r}')
    eps = 2.0 ** -23 if case['dtype'] == 'f32' else 2.0 ** -52
    seen = []
    buf = np.zeros((), dtype=np.float64)
    for x, q in zip(xs, exact):
        if case['dtype'] == 'buf':
            buf[...] = x
            x = buf
        try:
            w.update(x), e.update(x)
            _ = (w.mean, w.var, e.get())
        except Exception as ex:
            return Result(False, key=f'C10:numpy:exception:{type(ex).__name__}',
                          detail=f'update {len(seen) + 1} with a {type(x).__name__} value ({case["dtype"]}) raised {ex!r}')
        seen.append(q)
        n = len(seen)
        scale = max(abs(float(v)) for v in seen) + 1e-300
        m, va, sm = float(ref.mean(seen)), float(ref.pvar(seen)), float(ref.smooth(seen, Q(alpha)))
        if w.N != n or e.N != n:
            return Result(False, key='C10:numpy:N', detail='N does not count updates for NumPy inputs')
        # absolute floor: results below the smallest normal number of the dtype may underflow (gradual underflow is legitimate)
        tiny = 8 * n * float(np.finfo(np.float32 if case['dtype'] == 'f32' else np.float64).tiny)
        for nm, got, want, tol in (('mean', w.mean, m, 8 * n * eps * scale + tiny),
                                   ('var', w.var, va, 16 * n * eps * scale * scale + tiny),
                                   ('es', e.get(), sm, 8 * n * eps * scale + tiny)):
            g = float(got)
            if not math.isfinite(g) or abs(g - want) > tol:
                return Result(False, key=f'C10:numpy:{nm}', detail=f'{nm}={g!r} vs exact {want!r} tol {tol:g} ({case["dtype"]}, n={n})')
    return Result(True, nontrivial=len(set(exact)) >= 3, labels=[case['dtype']])


def _stream(maxlen):
    return st.lists(gen.exact_number(), min_size=0, max_size=maxlen)


def strategies(ctx):
    L = 400 if ctx.thorough() else 60
    reads = st.lists(st.integers(0, 3), min_size=1, max_size=6)
    cp = st.one_of(st.none(), st.integers(1, 30))
    ck = st.sampled_from(['deep', 'deep', 'shallow'])
    s_w = st.fixed_dictionaries({'values': _stream(L), 'reads': reads, 'copy_at': cp, 'copy_kind': ck})
    s_e = st.fixed_dictionaries({'values': _stream(L), 'alpha': gen.alpha01(), 'reads': reads, 'copy_at': cp, 'copy_kind': ck})
    s_l = st.fixed_dictionaries({'u': st.lists(gen.rational(), min_size=1, max_size=20),
                                 'w': st.lists(gen.rational(), min_size=1, max_size=20),
                                 'a': gen.rational(), 'b': gen.rational(), 'alpha': gen.alpha01()})
    s_n = st.fixed_dictionaries({'values': st.lists(st.one_of(st.integers(-1000, 1000).map(float), gen.finite_float(1e4)),
                                                    min_size=1, max_size=40),
                                 'dtype': st.sampled_from(sorted(_NP)),
                                 'alpha': st.sampled_from([0.0, 1.0, 0.5, 0.1, 0.001, 0.3]),
                                 'alpha_type': st.sampled_from(['float', 'f64', 'int'])})
    return {'welford': (s_w, run_welford), 'es': (s_e, run_es), 'linear': (s_l, run_linear), 'numpy': (s_n, run_numpy)}


SUBS = {'welford': run_welford, 'es': run_es, 'linear': run_linear, 'numpy': run_numpy}


def replay(sub, case):
    return SUBS[sub](case)


def self_check():
    ref.self_check()


def run(ctx):
    ctx.rule, ctx.assumptions = RULE, ASSUMPTIONS
    subs = strategies(ctx)
    budget = {'welford': ctx.n(1500, 64000), 'es': ctx.n(1500, 64000), 'linear': ctx.n(600, 32000),
              'numpy': ctx.n(900, 32000)}
    for name, (strat, fn) in subs.items():
        if not ctx.search(name, strat, fn, budget[name]):
            return
