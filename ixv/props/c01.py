"""C01 - incremental SAGE values always sum to the explained loss (DESIGN 3, C01)."""
import random

import numpy as np
from hypothesis import strategies as st
from hypothesis.stateful import rule, initialize, precondition

from ..core import Result, machine_base
from ..exact import Q
from .. import cfgs, gen, refx

LEVEL = 'exploration'
RULE = ("Config = {static,dynamic} x alpha in (0,1] x n_inner x d in 1..5 x storage kind x imputer kind x feature-name type x "
        "loss_bigger_is_better, sign-indefinite polynomial / squared / absolute losses, multi-label models; histories come from a "
        "RuleBasedStateMachine with rules explain_one(x, y, n_inner override, update_storage flag), update_storage(x, y), reseed(a, b), fork (the explainer is deep-copied, the copy "
        "carries on, the original must not change) "
        "and from generated whole streams. Invariant after EVERY call (every prefix): sum(importance_values) == explained_loss and "
        "explained_loss == marginal_loss - model_loss; exact (==) when the case runs in exact rationals, within "
        "16(d+2)t*eps*scale for the float twin of the same case (same seeds, values cast to float). "
        "Non-trivial: d>=2, >=2 explained observations, some non-zero importance, and (static or alpha != 1); distinct by digest of "
        "(config, executed ops). TreeStorage + TreeImputer (all four modes) run as float twins only (river trees need real floats).")
ASSUMPTIONS = ["fractions.Fraction arithmetic", "float twin tolerance scale = 4*#labels*max|coef|*(max|p|+|y|+1)^2 (largest over loss calls so far)"]


class Sim:
    def __init__(self, cfg, mode):
        self.cfg = dict(cfg, mode=mode)
        self.h = cfgs.Harness(self.cfg, record_imputer=False)
        random.seed(cfg['seeds'][0])
        np.random.seed(cfg['seeds'][1])
        self.ex = self.h.sage()
        self.prefilled = bool(self.h.prefill(self.ex))
        self.calls = 0
        self.explained = 0
        self.stored = 0
        self.nonzero = False
        self.forks = []
        self.stored_any = self.prefilled
        self.exact_agree = 0
        self.exactness_lost = 0

    def apply(self, op):
        """Returns (key, detail) on violation."""
        kind = op[0]
        if kind == 'reseed':
            random.seed(op[1])
            np.random.seed(op[2])
            return None
        if kind == 'fork':
            # snapshot / fork: the explainer is deep-copied, the copy carries on; the original must stay exactly as it was
            import copy
            old = self.ex
            self.forks.append((old, _estimates(old)))
            self.ex = copy.deepcopy(old)
            return None
        x, y = self.h.row({'x': op[1], 'y': op[2], 'perm': op[5] if len(op) > 5 else 0, 'opt': op[6] if len(op) > 6 else None})
        if kind == 'store':
            self.ex.update_storage(x, y)
            self.stored += 1
            self.stored_any = True
            return None
        n_inner, upd = op[3], op[4]
        if self.ex.seen_samples >= 1 and self.stored_any is False:
            return None  # precondition of every documented caller: never explain against an empty storage
        kw = {}
        if n_inner is not None:
            kw['n_inner_samples'] = n_inner
        if not upd:
            kw['update_storage'] = False
        was_seen = self.ex.seen_samples
        try:
            self.ex.explain_one(x, y, **kw)
        except Exception as e:
            return f'C01:exception:{type(e).__name__}', f'explain_one raised {e!r} (names {self.cfg["names"]!r})'
        self.calls += 1
        if upd:
            self.stored_any = True
        if was_seen >= 1:
            self.explained += 1
        return self.check()

    def check(self):
        for old, snap in self.forks:
            now = _estimates(old)
            if now != snap:
                changed = [k for k in snap if now.get(k) != snap[k]]
                return 'C01:fork-shares-state', f'a deep copy of the explainer was used further and the ORIGINAL changed: {changed}'
        ex = self.ex
        iv = ex.importance_values
        total = sum(iv.values(), Q(0) if self.h.mode == 'exact' else 0.0)
        el, ml, mdl = ex.explained_loss, ex.marginal_loss, ex.model_loss
        if any(v != 0 for v in iv.values()):
            self.nonzero = True
        if self.h.mode == 'exact' and all(refx_is_exact(v) for v in list(iv.values()) + [el, ml, mdl]):
            if total == el and el == ml - mdl:
                self.exact_agree += 1
                return None
            # a mismatch is a violation only if it also exceeds the float tolerance (an implementation may coerce to float)
            self.exactness_lost += 1
        tol = 16 * (self.cfg['d'] + 2) * max(self.calls, 1) * refx.EPS * self.h.loss.scale
        if abs(float(total) - float(el)) > tol:
            return 'C01:efficiency', (f'after call {self.calls}: sum of importance values {float(total)!r} vs explained loss '
                                      f'{float(el)!r} (tol {tol:g}, mode {self.h.mode})')
        if abs(float(el) - (float(ml) - float(mdl))) > tol:
            return 'C01:explained-loss', f'explained_loss {el!r} vs marginal - model {float(ml) - float(mdl)!r}'
        return None

    def nontrivial(self):
        c = self.cfg
        return c['d'] >= 2 and self.explained >= 2 and self.nonzero and (not c['dynamic'] or Q(c['alpha']) != 1)


def _estimates(ex):
    return {'importance_values': dict(ex.importance_values), 'variances': dict(ex.variances), 'marginal_loss': ex.marginal_loss,
            'model_loss': ex.model_loss, 'marginal_prediction': dict(ex.marginal_prediction), 'seen_samples': ex.seen_samples}


def refx_is_exact(v):
    from fractions import Fraction
    return isinstance(v, (int, Fraction)) and not isinstance(v, bool)


def run_case(case):
    cfg, ops = case['cfg'], case['ops']
    nt = False
    labels = []
    # a discontinuous (zero-one) loss is not run as a float twin: the mean of n identical float predictions may differ from the
    # prediction in the last bit and fall on the other side of the threshold - the identity then fails for reasons of rounding alone
    for mode in (('exact',) if cfg['loss'].get('kind') == '01' else ('exact', 'float')):
        sim = Sim(cfg, mode)
        unsupported = False
        for op in ops:
            err = sim.apply(op)
            if err and mode == 'exact' and err[0] == 'C01:exception:TypeError':
                # an implementation may apply float-only (NumPy) functions to losses: exact rationals are an observation aid,
                # the float twin of the same case decides
                unsupported = True
                labels.append('exact_arithmetic_unsupported')
                break
            if err:
                return Result(False, key=err[0], detail=f'[{mode}] {err[1]}')
        if unsupported:
            continue
        nt = nt or sim.nontrivial()
        if sim.exactness_lost:
            labels.append('exactness_lost')
        if mode == 'exact' and sim.exact_agree:
            labels.append('agreed_exactly')
    if cfg.get('extra'):
        labels.append('unexplained_extra_features')
    labels += [cfg['storage']['cls'], cfg['imputer'].get('strategy', 'default'), 'dynamic' if cfg['dynamic'] else 'static',
               f"d={cfg['d']}"]
    if Q(cfg['alpha']) == 1 and cfg['dynamic']:
        labels.append('alpha=1')
    if cfg['lbib']:
        labels.append('loss_bigger_is_better')
    if cfg.get('library_defaults'):
        labels.append('library_default_storage_and_imputer')
    if any(op[0] == 'store' for op in ops):
        labels.append('manual_store')
    if any(op[0] == 'reseed' for op in ops):
        labels.append('reseed')
    if any(op[0] == 'fork' for op in ops):
        labels.append('forked_by_deepcopy')
    return Result(True, nontrivial=nt, labels=labels)


def stream_case(cfg):
    ops = [['explain', r['x'], r['y'], r.get('n_inner'), r.get('upd', True), r.get('perm') or 0, r.get('opt')] for r in cfg['stream']]
    c = {k: v for k, v in cfg.items() if k not in ('stream', 'mode')}
    if cfg['seeds'][0] % 5 == 0:
        c['library_defaults'] = True    # every fifth case: storage and imputer are the ones the explainer creates itself
    if cfg['seeds'][1] % 4 == 0 and len(ops) >= 3:
        ops.insert(len(ops) // 2, ['fork'])
    return {'cfg': c, 'ops': ops}


def run_stream(cfg):
    return run_case(stream_case(cfg))


def make_machine():
    Base = machine_base()

    class SageMachine(Base):
        def __init__(self):
            super().__init__()
            self.sims = None

        @initialize(cfg=cfgs.config_st(tmin=0, tmax=0))
        def setup(self, cfg):
            self.cfg = {k: v for k, v in cfg.items() if k not in ('stream', 'mode')}
            self.sims = [Sim(self.cfg, 'exact')] + ([] if self.cfg['loss'].get('kind') == '01' else [Sim(self.cfg, 'float')])
            self.ops = []

        def _do(self, op):
            self.ops.append(op)
            for sim in list(self.sims):
                err = sim.apply(op)
                if err and sim.h.mode == 'exact' and err[0] == 'C01:exception:TypeError':
                    self.sims.remove(sim)    # see run_case: the float twin decides
                    continue
                if err:
                    self.fail(err[0], f'[{sim.h.mode}] {err[1]}', {'cfg': self.cfg, 'ops': list(self.ops)})

        @rule(data=st.data(), y=st.integers(-3, 3), n_inner=st.sampled_from([None, None, 1, 2, 3]),
              upd=st.sampled_from([True, True, True, False]))
        def explain_one(self, data, y, n_inner, upd):
            x = [data.draw(cfgs.value_st()) for _ in range(len(cfgs.all_names(self.cfg)))]
            if self.sims[0].calls == 0:
                upd = True
            self._do(['explain', x, y, n_inner, upd, data.draw(st.sampled_from([0, 0, 1, 2, 3])),
                      data.draw(st.sampled_from([None, None, 1, -2]))])

        @rule(data=st.data(), y=st.integers(-3, 3))
        def update_storage(self, data, y):
            x = [data.draw(cfgs.value_st()) for _ in range(len(cfgs.all_names(self.cfg)))]
            self._do(['store', x, y])

        @rule(a=gen.seed32, b=gen.seed32)
        def reseed(self, a, b):
            self._do(['reseed', a, b])

        @precondition(lambda self: self.sims is not None and self.sims and len(self.sims[0].forks) < 2)
        @rule()
        def fork(self):
            self._do(['fork'])

        def teardown(self):
            if self.sims is None:
                return
            res = Result(True, nontrivial=any(s.nontrivial() for s in self.sims),
                         labels=[self.cfg['storage']['cls'], f"d={self.cfg['d']}"])
            self.done({'cfg': self.cfg, 'ops': list(self.ops)}, res)

    return SageMachine


def run_tree(case):
    """Float twin with TreeStorage + TreeImputer (river trees need real floats): the identity must hold after every call."""
    from . import c18
    random.seed(case['seeds'][0])
    np.random.seed(case['seeds'][1])
    try:
        ex, storage, names = c18.build(case)
    except Exception as e:
        return Result(False, key=f'C01:tree:construct:{type(e).__name__}', detail=repr(e))
    scale = 1.0
    worst = 0.0
    for t, (x, y) in enumerate(c18.stream_of(case, names), start=1):
        try:
            ex.explain_one(dict(x), y)
        except Exception as e:
            return Result(False, key=f'C01:tree:exception:{type(e).__name__}', detail=f'call {t}: {e!r}')
        iv = ex.importance_values
        ml, mdl, el = float(ex.marginal_loss), float(ex.model_loss), float(ex.explained_loss)
        scale = max(scale, abs(ml) * 4, abs(mdl) * 4, 64.0)
        tol = 16 * (len(names) + 2) * t * refx.EPS * scale * 64
        total = float(sum(iv.values()))
        worst = max(worst, abs(total - el))
        if abs(total - el) > tol or abs(el - (ml - mdl)) > tol:
            return Result(False, key='C01:efficiency', detail=(f'[tree imputer {case["imputer"]}] after call {t}: sum of importance values '
                                                              f'{total!r} vs explained loss {el!r} (tol {tol:g})'))
    return Result(True, nontrivial=case['T'] >= 10, labels=['tree:' + case['imputer'], 'dynamic' if case['dynamic'] else 'static'])


@st.composite
def tree_cases(draw):
    return {'cls': 'sage', 'storage': 'tree', 'imputer': draw(st.sampled_from(['tree', 'tree+storage', 'tree+direct', 'tree+storage+direct'])),
            'd': 3, 'k': 3, 'n_inner': 3 - draw(st.integers(0, 2)), 'dynamic': draw(st.booleans()), 'T': 40 - draw(st.integers(0, 25)),
            'seeds': [draw(gen.seed32) % 2 ** 31, draw(gen.seed32) % 2 ** 31], 'stream_seed': draw(st.integers(0, 10 ** 6)),
            'tree_seed': draw(st.sampled_from([7, None])), 'grace': draw(st.sampled_from([5, 8, 20])), 'model_kind': 'plain'}


SUBS = {'machine': run_case, 'stream': run_stream, 'tree': run_tree}


def replay(sub, case):
    return SUBS[sub](case)


def run(ctx):
    ctx.rule, ctx.assumptions = RULE, ASSUMPTIONS
    if not ctx.machine_search('machine', make_machine(), ctx.n(300, 48000), 15 if not ctx.thorough() else 30):
        return
    if not ctx.search('stream', cfgs.config_st(tmax=40 if ctx.thorough() else 12), run_stream, ctx.n(900, 160000)):
        return
    ctx.search('tree', tree_cases(), run_tree, ctx.n(12, 1600), shrink=False)
