"""C02 - incremental PFI is the running statistic of (mean imputed loss - original loss) (DESIGN 3, C02)."""
import random

import numpy as np
from hypothesis import strategies as st

from ..core import Result
from ..exact import Q
from .. import cfgs, ref, refx
from .c03 import recompute_route, with_float_fallback, variant_labels, accessors_stay_read_only

LEVEL = 'exploration'
RULE = ("Same Config product as C01/C03 (PFI has no loss_bigger_is_better), plus models that ignore a chosen feature subset. An "
        "independent exact-rational reference is recomputed on EVERY prefix: per explained observation and feature "
        "c_f = mean_k loss(y, p_{f,k}) - loss(y, model(x)); importance = uniform mean (static) or I <- (1-a)I + a*c from 0 (dynamic); "
        "variance = same statistic of (c_f - I_f updated)^2. Route (a): predictions read from a recording imputer, which also asserts "
        "single-feature subsets, each feature once, n_samples = n_inner (constructor or per-call override). Route (b): DefaultImputer / "
        "SequenceStorage predictions recomputed without reading any draw. First observation: empty importance values, zero model and "
        "imputer calls. Returned dict == importance_values. A feature the model ignores has importance exactly 0 (exact mode) / <= tol "
        "(float). Non-trivial: >=2 explained observations, n_inner>=2 or d>=2, some c_f != 0; distinct by case digest.")
ASSUMPTIONS = ["fractions.Fraction arithmetic", "the recording imputer delegates unchanged to the library imputer"]


def run_case(cfg):
    return with_float_fallback(_run_case, cfg, 'C02')


def _run_case(cfg):
    h = cfgs.Harness(cfg)
    random.seed(cfg['seeds'][0])
    np.random.seed(cfg['seeds'][1])
    try:
        ex = h.pfi()
    except Exception as e:
        return Result(False, key=f'C02:construct:{type(e).__name__}', detail=f'constructor raised {e!r}')
    r = refx.PfiRef(cfg)
    cmp = refx.Cmp(h.mode)
    d = cfg['d']
    reads = h.model.reads()
    ignored = [n for i, n in enumerate(h.names) if i not in reads]
    if cfg['model'].get('positional'):
        ignored = []          # a positional model has no notion of ignoring a NAMED feature when the key order varies
    some_nonzero = False
    inner2 = False
    prev_row = None
    pre = h.prefill(ex)
    if pre:
        prev_row = pre[-1]
    for t, row in enumerate(cfg['stream']):
        x, y = h.row(row)
        n_inner = row.get('n_inner')
        upd = row.get('upd', True)
        mark = len(h.imputer.calls)
        mcalls = len(h.model.calls)
        kw = {}
        if n_inner is not None:
            kw['n_inner_samples'] = n_inner
        if not upd:
            kw['update_storage'] = False
        try:
            ret = ex.explain_one(x, y, **kw)
        except Exception as e:
            return Result(False, key=f'C02:exception:{type(e).__name__}', detail=f'explain_one call {t + 1} raised {e!r}')
        calls = h.imputer.calls[mark:]
        eff = n_inner if n_inner is not None else cfg['n_inner']
        if t == 0:
            if calls or len(h.model.calls) != mcalls or ex.importance_values != {} or ret != {}:
                return Result(False, key='C02:first-call', detail='the first observation must only seed the storage '
                              f'({len(calls)} imputer calls, {len(h.model.calls) - mcalls} model calls, values {ex.importance_values!r})')
            if upd:
                prev_row = (x, y)
            continue
        if eff >= 2:
            inner2 = True
        err = r.step(x, y, calls, eff)
        if err:
            return Result(False, key=f'C02:{err[0]}', detail=f'call {t + 1}: {err[1]}')
        err = recompute_route(h, r, cfg, x, calls, prev_row)
        if err:
            return Result(False, key=f'C02:{err[0]}', detail=f'call {t + 1}: {err[1]}')
        if any(v != 0 for v in r.last_contrib.values()):
            some_nonzero = True
        want = r.expected()
        tol = 64 * (t + 1) * refx.EPS * r.loss.scale
        bad = cmp.dict(ex.importance_values, want['importance_values'], tol)
        if bad:
            return Result(False, key='C02:importance_values', detail=f'call {t + 1}: {bad}')
        bad = cmp.dict(ex.variances, want['variances'], tol * r.loss.scale)
        if bad:
            return Result(False, key='C02:variances', detail=f'call {t + 1}: {bad}')
        bad = cmp.dict(ret, want['importance_values'], tol)
        if bad:
            return Result(False, key='C02:return-value', detail=f'call {t + 1}: returned dict: {bad}')
        bad = accessors_stay_read_only(ex, ret, want, cmp, tol, r.loss.scale, t)
        if bad:
            return Result(False, key=f'C02:{bad[0]}', detail=f'call {t + 1}: {bad[1]}')
        got = {refx.norm_key(k): v for k, v in ex.importance_values.items()}
        for f in ignored:
            v = got[f]
            if h.mode == 'exact' and isinstance(v, (int, Q)):
                if v != 0:
                    return Result(False, key='C02:ignored-feature', detail=f'ignored feature {f!r} has importance {v!r}')
            elif abs(float(v)) > tol:
                return Result(False, key='C02:ignored-feature', detail=f'ignored feature {f!r} has importance {v!r}')
        if upd:
            prev_row = (x, y)
    nt = r.explained >= 2 and (inner2 or d >= 2) and some_nonzero
    labels = [h.mode, cfg['storage']['cls'], cfg['imputer'].get('strategy', 'default'),
              'dynamic' if cfg['dynamic'] else 'static', f'd={d}']
    if ignored:
        labels.append('has_ignored_feature')
    if cfg.get('extra'):
        labels.append('unexplained_extra_features')
    if cfg['loss'].get('offset'):
        labels.append('loss_offset')
    labels += variant_labels(cfg)
    if cfg['imputer']['kind'] == 'default' or cfg['storage']['cls'] == 'sequence':
        labels.append('recomputed_route')
    if cmp.exactness_lost:
        labels.append('exactness_lost')
    if h.mode == 'exact' and cmp.exact_agreements:
        labels.append('agreed_exactly')
    return Result(True, nontrivial=nt, labels=labels)


SUBS = {'stream': run_case}


def replay(sub, case):
    return run_case(case)


def self_check():
    ref.self_check()


def run(ctx):
    ctx.rule, ctx.assumptions = RULE, ASSUMPTIONS
    ctx.search('stream', cfgs.config_st(tmax=40 if ctx.thorough() else 12, lbib=False), run_case, ctx.n(1500, 200000))
