"""C15 - explainer call contract: defaults, loss signature, names, evaluation budget (DESIGN 3, C15)."""
import copy
import random

import numpy as np
from hypothesis import strategies as st

from ..core import Result
from .. import cfgs, gen
from ..doubles import Model, Loss, Log, recording_storage_class, num

LEVEL = 'exploration'
RULE = ("Product: explainer class in {IncrementalPFI, IncrementalSage, BatchSage, IntervalSage} x {required arguments only, any subset "
        "of optional arguments overridden} x feature-name types (all str / int / float / mixtures, given as list, tuple or range) x d in 1..5 x n_inner (constructor, "
        "per call) x per-call update_storage x stream prefixes; loss in {positional-only callable (def loss(y_true, y_pred, /)), a bound method obj.loss(y_true, y_pred), a functools.partial, a bool-valued zero-one loss, a loss over (value, weight) TUPLE targets, river "
        "MSE/MAE}; model in {plain callable, RiverWrapper, bound method of a fitted sklearn LinearRegression (-> SklearnWrapper)}. "
        "Oracle over the shared event log of the doubles: construction succeeds; per explain_one on an incremental explainer: "
        "seen_samples +1, model evaluations == 0 on the first call and == 1 + d*n_inner afterwards (marginal imputer), x / y / name "
        "list equal to deep copies taken before, storage update events: exactly one, with (x, y), as the LAST event of the call - or "
        "none when update_storage=False; returned dict == importance_values; once an observation was explained the keys are exactly the "
        "d names. Batch/Interval: constructible from the three required arguments, accept the positional-only loss and every name "
        "mixture, keys exactly the names. Non-trivial: mixed name types or defaults-only construction or alternating update_storage; "
        "distinct by case digest.")
ASSUMPTIONS = ["'documented required arguments' = (model_function, loss_function, feature_names) in each class's documented order",
               "a NumPy scalar key that compares/hashes equal to a name is accepted as that name"]


def _mk_model(kind, spec, names, log):
    m = Model(spec, names, 'float', log=log)
    if kind == 'plain':
        return m, m
    if kind == 'river_wrapper':
        from ixai.utils.wrappers import RiverWrapper

        def predict_one(x):
            return m(x)['output']
        return RiverWrapper(predict_one), m
    if kind == 'sklearn_bound':
        from sklearn.linear_model import LinearRegression
        d = len(names)
        reg = LinearRegression()
        X = np.array([[(i * 7 + j * 3) % 5 for j in range(d)] for i in range(d + 3)], dtype=float)
        reg.fit(X, X.sum(axis=1) + 1.0)
        counter = _Counting(reg, log, names)
        return counter.predict, counter
    raise ValueError(kind)


class _Counting:
    """A fitted sklearn estimator whose predict calls are logged (bound method of an object whose type lives in a module
    named *sklearn* is what validate_model_function dispatches on, so subclass LinearRegression)."""

    def __new__(cls, reg, log, names):
        from sklearn.linear_model import LinearRegression

        class CountingLinearRegression(LinearRegression):
            __module__ = 'sklearn.linear_model._base'

            def predict(self, X):
                X = np.asarray(X)
                for row in X:
                    self._log.add('model', {n: v for n, v in zip(self._names, row)}, None)
                self.calls.extend([None] * len(X))
                return super().predict(X)
        obj = CountingLinearRegression()
        obj.__dict__.update(copy.deepcopy(reg.__dict__))
        obj._log = log
        obj._names = list(names)
        obj.calls = []
        return obj


class TupleTargetLoss:
    """A legal loss with the documented signature whose targets are (value, weight) tuples - not numbers."""

    def __init__(self, log):
        self.log = log

    def __call__(self, y_true, y_pred, /):
        value, weight = y_true
        v = weight * sum((p - value) ** 2 for p in y_pred.values())
        self.log.add('loss', y_true, dict(y_pred), v)
        return v


class _LossOwner:
    """A loss that is a bound method: `def loss(self, y_true, y_pred)` has exactly the documented positional signature."""

    def __init__(self, inner):
        self.inner = inner

    def loss(self, y_true, y_pred):
        return self.inner(y_true, y_pred)


def _mk_loss(kind, log):
    if kind == 'positional':
        return Loss({'kind': 'sq'}, 'float', log=log)
    if kind == 'varargs':
        inner = Loss({'kind': 'sq'}, 'float', log=log)

        def loss(*args):           # e.g. a two-argument loss behind a generic decorator written without functools.wraps
            return inner(*args)
        return loss
    if kind == 'tuple_target':
        return TupleTargetLoss(log)
    if kind == 'zero_one':
        return Loss({'kind': '01'}, 'float', log=log)      # the natural zero-one loss returns a Python bool
    if kind == 'bound_method':
        return _LossOwner(Loss({'kind': 'sq'}, 'float', log=log)).loss      # obj.loss with the documented (y_true, y_pred) signature
    if kind == 'partial':
        import functools
        inner = Loss({'kind': 'sq'}, 'float', log=log)

        def scaled(scale, y_true, y_pred):
            return inner(y_true, y_pred)
        return functools.partial(scaled, 1.0)
    from river import metrics
    return {'river_mse': metrics.MSE, 'river_mae': metrics.MAE}[kind]()


def run_incremental(case):
    from ixai.explainer import IncrementalPFI
    from ixai.explainer.sage import IncrementalSage
    from ixai.storage import UniformReservoirStorage, GeometricReservoirStorage, IntervalStorage
    from ixai.imputer import MarginalImputer
    names = list(case['names'])
    d = len(names)
    log = Log()
    model_fn, counter = _mk_model(case['model'], case['spec'], names, log)
    loss = _mk_loss(case['loss'], log)
    ov = case['overrides']
    kwargs = {}
    storage = None
    if 'storage' in ov:
        base = {'uniform': UniformReservoirStorage, 'geometric': GeometricReservoirStorage,
                'interval': IntervalStorage}[ov['storage']]
        storage = recording_storage_class(base)(size=3)
        storage._log = log
        kwargs['storage'] = storage
    if 'imputer' in ov:
        if storage is None:
            storage = recording_storage_class(UniformReservoirStorage)(size=3)
            storage._log = log
            kwargs['storage'] = storage
        kwargs['imputer'] = MarginalImputer(model_fn, ov['imputer'], storage)
    if 'n_inner' in ov:
        kwargs['n_inner_samples'] = ov['n_inner']
    if 'alpha' in ov:
        kwargs['smoothing_alpha'] = ov['alpha']
    if 'dynamic' in ov:
        kwargs['dynamic_setting'] = ov['dynamic']
    if 'lbib' in ov and case['cls'] == 'sage':
        kwargs['loss_bigger_is_better'] = ov['lbib']
    names_before = copy.deepcopy(names)
    random.seed(case['seeds'][0])
    np.random.seed(case['seeds'][1])
    cls = IncrementalPFI if case['cls'] == 'pfi' else IncrementalSage
    names_arg = _container(names, case.get('names_container'))
    try:
        ex = cls(model_fn, loss, names_arg, **kwargs)
    except Exception as e:
        which = 'required-args-only' if not kwargs else 'with-' + '+'.join(sorted(kwargs))
        return Result(False, key=f"C15:{case['cls']}:construct:{type(e).__name__}",
                      detail=f'{cls.__name__}(model, loss, names, {", ".join(sorted(kwargs))}) raised {e!r} [{which}]')
    ctor_inner = ov.get('n_inner', 1)
    explained_once = False
    for t, row in enumerate(case['stream']):
        x = {n: num(v, 'float') for n, v in zip(names, row['x'])}
        y = num(row['y'], 'float')
        if case['loss'] == 'tuple_target':
            y = (y, 2.0)
        x_before, y_before = copy.deepcopy(x), copy.deepcopy(y)
        kw = {}
        if row.get('n_inner') is not None:
            kw['n_inner_samples'] = row['n_inner']
        if not row.get('upd', True):
            kw['update_storage'] = False
        seen = ex.seen_samples
        mark = log.mark()
        try:
            ret = ex.explain_one(x, y, **kw)
        except Exception as e:
            kinds = '+'.join(sorted({type(n).__name__ for n in names}))
            return Result(False, key=f"C15:{case['cls']}:explain_one:{type(e).__name__}",
                          detail=f'call {t + 1} raised {e!r} (names {names!r} [{kinds}], loss {case["loss"]}, model {case["model"]})')
        evs = log.since(mark)
        if ex.seen_samples != seen + 1:
            return Result(False, key='C15:seen_samples', detail=f'seen_samples {seen} -> {ex.seen_samples} after one call')
        n_model = sum(1 for e in evs if e[0] == 'model')
        eff = row['n_inner'] if row.get('n_inner') is not None else ctor_inner
        want_model = 0 if seen == 0 else 1 + d * eff
        if n_model != want_model:
            return Result(False, key='C15:model-evaluations',
                          detail=f'call {t + 1}: {n_model} model evaluations, expected {want_model} (d={d}, n_inner={eff})')
        if x != x_before or y != y_before or names != names_before or list(ex.feature_names) != names_before \
                or list(names_arg) != names_before:
            return Result(False, key='C15:mutated-arguments', detail=f'call {t + 1}: x, y or the feature-name list was modified')
        if storage is not None:
            sev = [i for i, e in enumerate(evs) if e[0] == 'storage']
            if not row.get('upd', True):
                if sev:
                    return Result(False, key='C15:storage-updated-despite-flag', detail=f'call {t + 1}: update_storage=False but storage.update was called')
            else:
                if len(sev) != 1:
                    return Result(False, key='C15:storage-update-count', detail=f'call {t + 1}: {len(sev)} storage updates')
                e = evs[sev[0]]
                if not (e[1] == x and e[2] == y):
                    return Result(False, key='C15:storage-update-args', detail=f'call {t + 1}: storage updated with {e[1:]!r}, not (x, y)')
                if sev[0] != len(evs) - 1:
                    return Result(False, key='C15:storage-update-not-last',
                                  detail=f'call {t + 1}: storage.update is event {sev[0] + 1} of {len(evs)}; the observation became part of its own background')
        iv = ex.importance_values
        if ret != iv or not isinstance(ret, dict):
            return Result(False, key='C15:return-value', detail=f'call {t + 1}: returned {ret!r} but importance_values is {iv!r}')
        if seen >= 1:
            explained_once = True
        if explained_once:
            if len(iv) != d or set(iv) != set(names):
                return Result(False, key='C15:keys', detail=f'importance keys {list(iv)!r} are not exactly the names {names!r}')
    kinds = {type(n).__name__ for n in names}
    upds = [r.get('upd', True) for r in case['stream']]
    nt = len(kinds) > 1 or not kwargs or (True in upds[1:] and False in upds[1:])
    labels = [case['cls'], 'names:' + '+'.join(sorted(kinds)), 'defaults_only' if not kwargs else 'overrides',
              'loss:' + case['loss'], 'model:' + case['model']]
    return Result(True, nontrivial=nt, labels=labels)


def _container(names, kind):
    """The documented type is Sequence[...]: a list, a tuple, or (for names 0..d-1) a range."""
    if kind == 'tuple':
        return tuple(names)
    if kind == 'range' and names == list(range(len(names))):
        return range(len(names))
    return names


def run_batch(case):
    from ixai.explainer.sage import BatchSage, IntervalSage
    names = list(case['names'])
    d = len(names)
    log = Log()
    model = Model(case['spec'], names, 'float', log=log)
    loss = _mk_loss(case['loss'], log)
    random.seed(case['seeds'][0])
    np.random.seed(case['seeds'][1])
    kwargs = {}
    if case.get('n_inner') is not None:
        kwargs['n_inner_samples'] = case['n_inner']
    if case['cls'] == 'interval' and case.get('interval') is not None:
        kwargs['interval_length'] = case['interval']
        kwargs['storage_length'] = case['storage_length']
    cls = BatchSage if case['cls'] == 'batch' else IntervalSage
    try:
        ex = cls(model, _container(names, case.get('names_container')), loss, **kwargs)
    except Exception as e:
        return Result(False, key=f"C15:{case['cls']}:construct:{type(e).__name__}", detail=f'{cls.__name__}(model, names, loss) raised {e!r}')
    for t, row in enumerate(case['stream']):
        x = {n: num(v, 'float') for n, v in zip(names, row['x'])}
        y = num(row['y'], 'float')
        if case['loss'] == 'tuple_target':
            y = (y, 2.0)
        x_before = copy.deepcopy(x)
        kw = {'verbose': False}
        if case['cls'] == 'batch' and case.get('original'):
            kw['original_sage'] = True
        if case['cls'] == 'interval':
            kw['force_explain'] = bool(row.get('force'))
        try:
            ret = ex.explain_one(x, y, **kw)
        except Exception as e:
            kinds = '+'.join(sorted({type(n).__name__ for n in names}))
            return Result(False, key=f"C15:{case['cls']}:explain_one:{type(e).__name__}",
                          detail=f'call {t + 1} raised {e!r} (names {names!r} [{kinds}], loss {case["loss"]})')
        if x != x_before:
            return Result(False, key='C15:mutated-arguments', detail='x was modified')
        if case['cls'] == 'interval' and ex.seen_samples != t + 1:
            return Result(False, key='C15:seen_samples', detail=f'IntervalSage.seen_samples={ex.seen_samples} after {t + 1} explain_one calls')
        if ret != ex.importance_values:
            return Result(False, key='C15:return-value', detail='returned dict differs from importance_values')
        if len(ret) != d or set(ret) != set(names):
            return Result(False, key='C15:keys', detail=f'importance keys {list(ret)!r} are not exactly the names {names!r}')
    kinds = {type(n).__name__ for n in names}
    nt = len(kinds) > 1 or not kwargs
    return Result(True, nontrivial=nt, labels=[case['cls'], 'names:' + '+'.join(sorted(kinds)), 'loss:' + case['loss'],
                                               'defaults_only' if not kwargs else 'overrides'])


@st.composite
def inc_cases(draw):
    d = draw(st.integers(1, 5))
    names = draw(cfgs.names_st(d))
    model = draw(st.sampled_from(['plain', 'plain', 'river_wrapper', 'sklearn_bound']))
    if model == 'sklearn_bound':
        loss = 'positional'
    else:
        loss = draw(st.sampled_from(['positional', 'positional', 'river_mse', 'river_mae', 'tuple_target', 'varargs', 'bound_method', 'partial', 'zero_one']))
    spec = draw(cfgs.model_st(d, multi=False, allow_ignore=False))
    spec['outs'][0]['label'] = 'output'
    cls = draw(st.sampled_from(['pfi', 'sage']))
    ov = {}
    if draw(st.booleans()):
        for k, s in (('storage', st.sampled_from(['uniform', 'geometric', 'interval'])),
                     ('imputer', st.sampled_from(['joint', 'product'])),
                     ('n_inner', st.integers(1, 3)), ('alpha', st.sampled_from([1.0, 0.5, 0.1, 0.001])),
                     ('dynamic', st.booleans()), ('lbib', st.booleans())):
            if draw(st.booleans()):
                ov[k] = draw(s)
    if 'imputer' not in ov and draw(st.integers(0, 2)) == 0:
        ov['imputer'] = 'product'            # the documented non-default sampling strategy, with whatever names were drawn
    stream = draw(cfgs.stream_st(d, 2, 8))
    if model == 'sklearn_bound':
        # SklearnWrapper feeds np.asarray(list(x.values())): keep numeric values
        pass
    container = draw(st.sampled_from(['list', 'list', 'tuple', 'range']))
    if container == 'range':
        names = list(range(d))
    return {'names_container': container, 'cls': cls, 'names': names, 'model': model, 'loss': loss, 'spec': spec, 'overrides': ov,
            'seeds': [draw(gen.seed32), draw(gen.seed32)], 'stream': stream}


@st.composite
def batch_cases(draw):
    d = draw(st.integers(1, 4))
    names = draw(cfgs.names_st(d))
    spec = draw(cfgs.model_st(d, multi=False, allow_ignore=False))
    spec['outs'][0]['label'] = 'output'
    cls = draw(st.sampled_from(['batch', 'interval']))
    container = draw(st.sampled_from(['list', 'list', 'tuple', 'range']))
    if container == 'range':
        names = list(range(d))
    case = {'names_container': container, 'cls': cls, 'names': names, 'spec': spec, 'loss': draw(st.sampled_from(['positional', 'positional', 'river_mse', 'tuple_target', 'varargs', 'bound_method', 'partial', 'zero_one'])),
            'seeds': [draw(gen.seed32), draw(gen.seed32)], 'n_inner': draw(st.sampled_from([None, None, 1, 2])),
            'original': draw(st.booleans()), 'interval': draw(st.sampled_from([None, 1, 2, 3])),
            'storage_length': draw(st.integers(1, 4))}
    stream = draw(cfgs.stream_st(d, 1, 5, per_call=False))
    for r in stream:
        r['force'] = draw(st.booleans())
    if cls == 'interval' and case['interval'] is None:
        # default interval_length is 1000: force at least one explanation so that keys can be checked
        stream[-1]['force'] = True
    case['stream'] = stream
    return case


SUBS = {'incremental': run_incremental, 'batch': run_batch}


def replay(sub, case):
    return SUBS[sub](case)


def run(ctx):
    ctx.rule, ctx.assumptions = RULE, ASSUMPTIONS
    if not ctx.search('incremental', inc_cases(), run_incremental, ctx.n(1200, 96000)):
        pass
    ctx.search('batch', batch_cases(), run_batch, ctx.n(500, 48000))
