"""C11 - SlidingWindowTracker reports statistics of exactly the last k values (DESIGN 3, C11)."""
import math

import numpy as np
from hypothesis import strategies as st

from ..core import Result
from .. import gen

LEVEL = 'exploration'
RULE = ("Window size k in 1..8 (thorough ..64; one case in forty uses a LARGE window of 1025..4100 slots read every ~100 updates during its fill phase) and float streams of length up to 4k+3 (so beyond k and beyond 2k by construction); "
        "(ints, floats, bools, NumPy float/signed/unsigned scalars in mixtures, or handed over in one reused 0-d array buffer); after every update - or, in part of the cases, only at SPARSE read positions - mean/var/std/get()/call are compared with NumPy statistics of values[-min(n,k):] within "
        "8*k*eps*max|v| (squared for var). Construction itself is part of the property: an exception in the constructor or in "
        "update is a violation. Non-trivial: n >= 2k+1 with pairwise distinct values; distinct by case digest.")
ASSUMPTIONS = ["only the installed NumPy (2.x) can be exercised for 'supported NumPy versions'",
               "np.mean/np.var of the explicit window slice is the oracle"]


def run_case(case):
    k, vals = case['k'], case['values']
    try:
        from ixai.utils.tracker.sliding_window import SlidingWindowTracker
        t = SlidingWindowTracker(k)
    except Exception as e:  # construction is part of the property
        return Result(False, key='C11:construct', detail=f'SlidingWindowTracker({k}) raised {type(e).__name__}: {e}')
    eps = 2.0 ** -52
    kinds = case.get('kinds') or ['float']
    conv = {'float': float, 'int': lambda v: int(round(v)), 'f32': np.float32, 'f64': np.float64, 'i64': lambda v: np.int64(round(v)),
            'bool': lambda v: bool(round(v) % 2), 'u8': lambda v: np.uint8(abs(round(v)) % 256), 'u64': lambda v: np.uint64(abs(round(v))),
            'buf': float}
    typed = [conv[kinds[i % len(kinds)]](v) for i, v in enumerate(vals)]
    vals = [float(v) for v in typed]          # the values as supplied (after the caller's own conversion)
    buf = np.zeros((), dtype=np.float64)      # kind 'buf': the value is handed over in ONE reused 0-d array (an out= buffer); it counts as supplied
    reads = case.get('reads') or [1]
    for n in range(1, len(vals) + 1):
        try:
            if kinds[(n - 1) % len(kinds)] == 'buf':
                buf[...] = typed[n - 1]
                t.update(buf)
            else:
                t.update(typed[n - 1])
            if not reads[n % len(reads)] and n < len(vals):
                continue          # no statistic is read at this position (reads may be sparse)
            got = {'mean': t.mean, 'var': t.var, 'std': t.std, 'get': t.get(), 'call': t()}
        except Exception as e:
            return Result(False, key='C11:use', detail=f'k={k}, update {n} raised {type(e).__name__}: {e}')
        win = np.array(vals[max(0, n - k):n], dtype=float)
        scale = float(np.max(np.abs(win))) + 1e-300
        want = {'mean': float(np.mean(win)), 'var': float(np.var(win)), 'std': float(np.std(win))}
        want['get'] = want['call'] = want['mean']
        tol = {'mean': 8 * k * eps * scale, 'get': 8 * k * eps * scale, 'call': 8 * k * eps * scale,
               'var': 32 * k * eps * scale * scale}
        tol['std'] = math.sqrt(tol['var']) if want['var'] == 0 else max(tol['var'] / (2 * want['std'] + 1e-300) * 4,
                                                                           8 * k * eps * scale)
        for name in ('mean', 'var', 'std', 'get', 'call'):
            g = got[name]
            if not isinstance(g, (int, float, np.floating)) or not math.isfinite(g) or abs(g - want[name]) > tol[name]:
                phase = 'fill' if n <= k else ('first-wrap' if n <= 2 * k else 'beyond-2k')
                return Result(False, key=f'C11:window:{phase}',
                              detail=f'k={k} n={n}: {name}={g!r}, statistics of the last {min(n, k)} values give {want[name]!r}')
    nt = len(vals) >= 2 * k + 1 and len(set(vals)) == len(vals)
    labels = ['beyond_2k' if len(vals) > 2 * k else ('beyond_k' if len(vals) > k else 'fill_only')] + (['large_window'] if k > 1024 else [])
    return Result(True, nontrivial=nt, labels=labels)


@st.composite
def cases(draw, kmax):
    if draw(st.integers(0, 39)) == 0:
        # LARGE windows (beyond 1024, 2048, 4096 slots), read sparsely during the fill phase, around k and a little beyond
        k = draw(st.sampled_from([1025, 1500, 2049, 3000, 4100]))
        n = k + draw(st.integers(0, 40))
        base = draw(st.integers(-1000, 1000))
        vals = [float((base + 37 * i) % 2001 - 1000) / 8 for i in range(n)]
        return {'k': k, 'values': vals, 'kinds': ['float'], 'reads': [0] * draw(st.sampled_from([96, 130, 211])) + [1]}
    k = draw(st.integers(1, kmax))
    n = draw(st.integers(0, 4 * k + 3))
    distinct = draw(st.booleans())
    if distinct:
        base = draw(st.lists(st.integers(-10 ** 6, 10 ** 6), min_size=n, max_size=n, unique=True))
        scale = draw(st.sampled_from([1.0, 0.5, 1e-3, 1e3, 0.1]))
        vals = [b * scale for b in base]
    elif draw(st.integers(0, 3)) == 0:
        # magnitude jumps: the tolerance is relative to the values IN THE WINDOW, so what left the window must not leave a trace
        mags = [draw(st.sampled_from([1e8, 1.0, 1e-8, 1e4])) for _ in range(4)]
        vals = [draw(st.integers(1, 999)) / 1000.0 * mags[(4 * i) // max(n, 1)] for i in range(n)]
    else:
        vals = draw(st.lists(st.one_of(gen.finite_float(1e6), st.integers(-5, 5).map(float)), min_size=n, max_size=n))
    # the supplied values are ints, floats and NumPy scalars in any mixture ("int or float")
    kinds = draw(st.sampled_from([['float'], ['float'], ['int', 'float'], ['int', 'int', 'float', 'f32'], ['f32', 'float'], ['i64', 'f64', 'float'],
                                  ['bool', 'float', 'int'], ['u8', 'float'], ['u64', 'u8', 'i64'], ['buf'], ['buf', 'buf', 'float']]))
    return {'k': k, 'values': vals, 'kinds': kinds, 'reads': draw(st.sampled_from([[1], [1], [1, 0], [0, 0, 1], [0, 0, 0, 0, 1], [1, 0, 0, 0, 0, 0, 0]]))}


SUBS = {'window': run_case}


def replay(sub, case):
    return run_case(case)


def run(ctx):
    ctx.rule, ctx.assumptions = RULE, ASSUMPTIONS
    ctx.search('window', cases(64 if ctx.thorough() else 8), run_case, ctx.n(2500, 160000))
