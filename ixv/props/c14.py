"""C14 - model wrappers give one canonical dict output form for single and batch input (DESIGN 3, C14)."""
import math
import warnings

import numpy as np
from hypothesis import strategies as st

from ..core import Result
from .. import cfgs, gen

LEVEL = 'exploration'
RULE = ("(a) synthetic prediction functions (through SklearnWrapper, and through TorchWrapper with tensors) that RECORD the array they "
        "receive and return arrays of every listed shape - single input: (), (1,), (1,1), (1,c), (c,); batch of n in 1..5: (n,), (n,1), "
        "(n,c) - and dtype (float64/32, int64/32, bool); input dicts with permuted key order, optional feature_names (subset and order); "
        "(b) real models: scikit-learn estimators from sklearn.utils.all_estimators() that fit a 12x3 toy problem and expose predict "
        "(quick: a fixed set of 14; thorough: all that fit within 2 s), predict and predict_proba; river classifiers/regressors trained on "
        "a short stream (numeric and string labels); scalar- and vector-output torch.nn modules; (c) RiverWrapper over generated output "
        "sequences (dict passthrough, numeric, string labels -> one-hot over labels seen so far); (d) validate_model_function dispatch. "
        "Oracle: independent canon(out): size-one -> {'output': float}, else flattened {i: v_i}; dict input -> canon(f(array (1,d))); "
        "list input -> [canon(row) for row in f(batch)] in order and equal to one-at-a-time calls for row-independent functions; with "
        "feature_names the received array has exactly those columns in that order and the output is invariant under key permutation. "
        "Non-trivial: an output shape with a size-one axis, or n>=2 rows, or permuted key order with feature names; distinct by case digest.")
ASSUMPTIONS = ["third-party classes as installed (scikit-learn 1.9.1, river 0.26.1, torch 2.14, NumPy 2.5.3)",
               "'bound methods of sklearn and river models, and torch modules' is read as the code and tests/test_validators.py do"]

DTYPES = {'f64': np.float64, 'f32': np.float32, 'i64': np.int64, 'i32': np.int32, 'bool': np.bool_}


def canon(out):
    """The canonical dict of one prediction (independent of the library)."""
    arr = np.asarray(out)
    if arr.size == 1:
        return {'output': float(arr.reshape(-1)[0])}
    flat = arr.reshape(-1)
    return {i: flat[i] for i in range(flat.shape[0])}


def same_canon(got, want, tol=0.0):
    if not isinstance(got, dict) or list(got.keys()) != list(want.keys()):
        return False
    for k in want:
        g, w = got[k], want[k]
        try:
            gf, wf = float(g), float(w)
        except Exception:
            return False
        if math.isnan(wf) and math.isnan(gf):
            continue
        if abs(gf - wf) > tol * max(1.0, abs(wf)):
            return False
    if 'output' in want and not isinstance(got['output'], float):
        return False
    return True


class Synth:
    """Row-independent synthetic prediction function: base_i = sum_j w_j * X[i, j]; output shaped as requested."""

    def __init__(self, weights, shape, dtype, c):
        self.w = np.asarray(weights, dtype=float)
        self.shape = shape
        self.dtype = DTYPES[dtype]
        self.c = c
        self.received = []

    def rows(self, X):
        X = np.asarray(X, dtype=float)
        # row by row in a fixed order (a BLAS product sums a 1-row and an n-row table differently in the last bit - enough to flip a
        # thresholded or rounded output and make this test function, not the wrapper, row-dependent)
        w = [float(v) for v in self.w[:X.shape[1]]]
        base = np.array([math.fsum(w[j] * float(row[j]) for j in range(len(w))) for row in X], dtype=float)
        if self.dtype is np.bool_:
            return base, (lambda v: (v > 0))
        if self.dtype in (np.int64, np.int32):
            return base, (lambda v: np.rint(v))
        return base, (lambda v: v)

    def __call__(self, X):
        self.received.append(np.array(X, copy=True))
        base, conv = self.rows(X)
        n = base.shape[0]
        s = self.shape
        if s == '()':
            out = np.asarray(conv(base[0]))
        elif s == '(1,)' or s == '(n,)':
            out = conv(base)
        elif s == '(1,1)' or s == '(n,1)':
            out = conv(base).reshape(n, 1)
        elif s == '(c,)':
            out = conv(np.array([base[0] * (k + 1) for k in range(self.c)]))
        else:  # (n,c) / (1,c)
            out = conv(np.stack([base * (k + 1) for k in range(self.c)], axis=1))
        return np.asarray(out).astype(self.dtype)


def run_synth(case):
    """One wrapper object, one or more consecutive calls on it (a wrapper is normally created once and reused for a whole stream)."""
    from ixai.utils.wrappers import SklearnWrapper, TorchWrapper
    names = list(case['names'])
    fn = Synth(case['weights'], case['shape'], case['dtype'], case['c'])
    fnames = [names[i] for i in case['feature_names']] if case['feature_names'] is not None else None
    torch_mode = case['wrapper'] == 'torch'
    if torch_mode:
        import torch

        def link(t):
            return torch.tensor(fn(t.detach().cpu().numpy()))
        w = TorchWrapper(link, feature_names=fnames) if fnames is not None else TorchWrapper(link)
    else:
        w = SklearnWrapper(fn, feature_names=fnames) if fnames is not None else SklearnWrapper(fn)
    calls = case.get('calls') or [{'rows': case['rows'], 'perms': case['perms']}]
    nt = False
    labels = []
    for ci, call in enumerate(calls):
        res = _synth_call(case, w, fn, names, fnames, torch_mode, call, ci)
        if isinstance(res, Result):
            return res
        nt = nt or res
    if len(calls) > 1:
        labels.append('wrapper_reused')
    return Result(True, nontrivial=nt, labels=labels + [case['wrapper'], 'shape:' + case['shape'], case['dtype'],
                                                        'batch' if case['batch'] else 'single',
                                                        'feature_names' if fnames is not None else 'no_feature_names'])


def _synth_call(case, w, fn, names, fnames, torch_mode, call, ci):
    used = fnames if fnames is not None else names
    rows = [{n: v for n, v in zip(names, r)} for r in call['rows']]      # ints stay ints, fractions are floats
    tol = 1e-5 if (torch_mode or case['dtype'] == 'f32') else 1e-12
    tagw = case['wrapper']
    where = f'call {ci + 1} on the same wrapper: ' if ci else ''

    def expect_arr(xs):
        return np.array([[x[n] for n in used] for x in xs], dtype=float)

    if case['batch']:
        xs = [dict((k, r[k]) for k in _perm(list(r), p)) for r, p in zip(rows, call['perms'])]
        try:
            got = w(xs)
        except Exception as e:
            return Result(False, key=f'C14:{tagw}:batch:exception:{type(e).__name__}', detail=f'{case["shape"]}/{case["dtype"]}: {e!r}')
        rec = fn.received[-1]
        if fnames is not None or all(p == 0 for p in call['perms']):
            if rec.shape != (len(xs), len(used)) or not np.allclose(np.asarray(rec, dtype=float), expect_arr(xs), atol=1e-6):
                return Result(False, key=f'C14:{tagw}:batch:received-array', detail=where + f'function received {rec!r}, expected {expect_arr(xs)!r}')
        want_rows = fn(rec)
        want = [canon(want_rows[i]) for i in range(len(xs))]
        if not isinstance(got, list) or len(got) != len(want):
            return Result(False, key=f'C14:{tagw}:batch:length', detail=f'{len(got) if isinstance(got, list) else got!r} results for {len(xs)} rows')
        for i, (g, wv) in enumerate(zip(got, want)):
            if not same_canon(g, wv, tol):
                return Result(False, key=f'C14:{tagw}:batch:canonical-form:{_shape_class(case)}',
                              detail=where + f'row {i} of batch output shape {case["shape"]} dtype {case["dtype"]}: got {g!r}, canonical form is {wv!r}')
        if fnames is not None or all(p == 0 for p in call['perms']):
            for i, x in enumerate(xs):
                one = w(x)
                rec1 = fn.received[-1]
                if not np.allclose(np.asarray(rec1, dtype=float), expect_arr([x]), atol=1e-6):
                    return Result(False, key=f'C14:{tagw}:single:received-array', detail=where + f'single call received {rec1!r}, expected {expect_arr([x])!r}')
                if not same_canon(one, got[i], tol) and case['shape'] not in ('()', '(c,)'):
                    return Result(False, key=f'C14:{tagw}:single-vs-batch', detail=where + f'row {i}: single call gives {one!r}, batch row gives {got[i]!r}')
    else:
        x = rows[0]
        xp = dict((k, x[k]) for k in _perm(list(x), call['perms'][0]))
        try:
            got = w(xp)
        except Exception as e:
            return Result(False, key=f'C14:{tagw}:single:exception:{type(e).__name__}', detail=f'{case["shape"]}/{case["dtype"]}: {e!r}')
        rec = fn.received[-1]
        if fnames is not None or call['perms'][0] == 0:
            if rec.shape != (1, len(used)) or not np.allclose(np.asarray(rec, dtype=float), expect_arr([x]), atol=1e-6):
                return Result(False, key=f'C14:{tagw}:single:received-array',
                              detail=where + f'function received {rec!r}, expected {expect_arr([x])!r} (feature_names={fnames!r}, key order {list(xp)!r})')
        want = canon(fn(rec))
        if not same_canon(got, want, tol):
            return Result(False, key=f'C14:{tagw}:single:canonical-form:{_shape_class(case)}',
                          detail=where + f'output shape {case["shape"]} dtype {case["dtype"]}: got {got!r}, canonical form is {want!r}')
        if fnames is not None:
            got2 = w(x)
            if not same_canon(got2, want, tol):
                return Result(False, key=f'C14:{tagw}:key-order-dependence', detail=f'{got2!r} vs {got!r} for permuted keys')
    size_one = case['shape'] in ('()', '(1,)', '(1,1)', '(n,1)') or case['c'] == 1 or (case['batch'] and case['shape'] == '(n,)')
    return bool(size_one or (case['batch'] and len(rows) >= 2) or (fnames is not None and any(call['perms'])))


def _shape_class(case):
    return 'size-one' if (case['shape'] in ('()', '(1,)', '(1,1)', '(n,1)', '(n,)') or case['c'] == 1) else 'vector'


def _perm(keys, p):
    """p-th rotation/reversal of the key list (p = 0 keeps the order)."""
    if p == 0 or len(keys) < 2:
        return keys
    if p % 2:
        return list(reversed(keys))
    r = (p // 2) % len(keys)
    return keys[r:] + keys[:r]


# ---- RiverWrapper over generated output sequences ----------------------------------------------------

def run_river_seq(case):
    """RiverWrapper around a prediction function that is a deterministic function of the input dict (by feature NAME): which of the
    generated outputs it returns depends on 1*x['a'] + 10*x['b'] + 100*x['c'].  Batches contain rows that carry the same value
    sequence under different keys ({'a': 1, 'b': 0} vs {'b': 1, 'a': 0})."""
    from ixai.utils.wrappers import RiverWrapper
    outs = []
    for kind, v in case['outputs']:
        if kind == 'num':
            outs.append(v)
        elif kind == 'bool':
            outs.append(bool(v))
        elif kind == 'np':
            outs.append(np.float64(v))
        elif kind == 'str':
            outs.append(['x', 'y', 'z', 'w'][v % 4])
        else:
            outs.append({k: float(p) for k, p in v})
    weights = {'a': 1, 'b': 10, 'c': 100}
    calls = []

    def raw(x):
        return outs[int(sum(weights[k] * v for k, v in x.items())) % len(outs)]

    def predict_one(x):
        calls.append(dict(x))
        return raw(x)
    w = RiverWrapper(predict_one)
    seen = []
    sent = []
    for size, rows in zip(case['plan'], case['rows']):
        xs = [dict(r) for r in rows[:abs(size)]]
        if not xs:
            continue
        single = size > 0 and len(xs) == 1
        try:
            got = w(xs[0]) if single else w(xs)
        except Exception as e:
            return Result(False, key=f'C14:river:exception:{type(e).__name__}', detail=f'{e!r} for inputs {xs!r}')
        sent.extend(xs)
        got_list = [got] if isinstance(got, dict) else got
        if isinstance(got, dict) != single:
            return Result(False, key='C14:river:list-vs-dict', detail='dict input must give a dict, list input a list')
        if not isinstance(got_list, list) or len(got_list) != len(xs):
            return Result(False, key='C14:river:length', detail=f'{len(got_list)} outputs for {len(xs)} inputs')
        for x, g in zip(xs, got_list):
            o = raw(x)
            if isinstance(o, dict):
                want = o
            elif isinstance(o, str):
                if o not in seen:
                    seen.append(o)
                want = {l: (1.0 if l == o else 0.0) for l in seen}
                if not (isinstance(g, dict) and g == want):
                    return Result(False, key='C14:river:one-hot', detail=f'input {x!r}: label {o!r} after labels {seen!r}: got {g!r}, expected one-hot {want!r}')
                continue
            else:
                want = {'output': float(o)}
            if not (isinstance(g, dict) and g == want and (isinstance(o, dict) or isinstance(g['output'], float))):
                return Result(False, key='C14:river:canonical-form',
                              detail=f'input {x!r} (batch {xs!r}): model output {o!r}: got {g!r}, expected {want!r}')
    # every input must have reached the model as it was given (a deterministic model may be asked only once for identical rows)
    if any(c not in sent for c in calls) or any(x not in calls for x in sent):
        return Result(False, key='C14:river:inputs', detail=f'the model received {calls!r}; the inputs were {sent!r}')
    kinds = {k for k, _ in case['outputs']}
    return Result(True, nontrivial=('str' in kinds and len(seen) >= 2) or any(abs(s_) >= 2 for s_ in case['plan']), labels=sorted(kinds))


# ---- real models --------------------------------------------------------------------------------------

QUICK_SKLEARN = ['LinearRegression', 'Ridge', 'DecisionTreeRegressor', 'DecisionTreeClassifier', 'LogisticRegression',
                 'KNeighborsClassifier', 'KNeighborsRegressor', 'GaussianNB', 'DummyClassifier', 'DummyRegressor', 'SVR',
                 'ExtraTreeClassifier', 'PLSRegression', 'Lasso']


def _toy():
    rs = np.random.RandomState(0)
    X = rs.randint(-3, 4, size=(12, 3)).astype(float)
    yr = X @ np.array([1.0, -2.0, 0.5]) + 1.0
    yc = (yr > np.median(yr)).astype(int)
    yc3 = np.digitize(yr, np.quantile(yr, [0.33, 0.66]))
    return X, yr, yc, yc3


def sklearn_models(all_of_them):
    from sklearn.utils import all_estimators
    import time
    X, yr, yc, yc3 = _toy()
    out = []
    skipped = []
    for name, cls in all_estimators():
        if not all_of_them and name not in QUICK_SKLEARN:
            continue
        if not hasattr(cls, 'predict'):
            continue
        try:
            est = cls()
        except Exception:
            skipped.append(name + ':needs-arguments')
            continue
        t0 = time.time()
        try:
            with warnings.catch_warnings():
                warnings.simplefilter('ignore')
                is_clf = getattr(est, '_estimator_type', None) == 'classifier' or hasattr(est, 'predict_proba')
                target = yc3 if is_clf else yr
                est.fit(X, target)
                est.predict(X[:2])
        except Exception:
            skipped.append(name + ':does-not-fit-toy-problem')
            continue
        if time.time() - t0 > 2.0:
            skipped.append(name + ':too-slow')
            continue
        out.append((name, est))
    return out, skipped, X


def run_sklearn_model(name, est, X, ctx_rows):
    from ixai.utils.wrappers import SklearnWrapper
    from ixai.utils.validators.model import validate_model_function
    names = ['f0', 'f1', 'f2']
    methods = ['predict'] + (['predict_proba'] if hasattr(est, 'predict_proba') else [])
    for meth in methods:
        f = getattr(est, meth)
        for make in ('explicit', 'validated', 'feature_names'):
            with warnings.catch_warnings():
                warnings.simplefilter('ignore')
                if make == 'explicit':
                    w = SklearnWrapper(f)
                elif make == 'validated':
                    w = validate_model_function(f)
                    if not isinstance(w, SklearnWrapper):
                        return f'C14:validate:sklearn-not-wrapped', f'{name}.{meth} -> {type(w).__name__}'
                else:
                    w = SklearnWrapper(f, feature_names=list(reversed(names)))
                rows = [dict(zip(names, map(float, r))) for r in ctx_rows]
                cols = list(reversed(names)) if make == 'feature_names' else names
                if make == 'feature_names':
                    continue_rows = [dict(zip(names, map(float, r))) for r in ctx_rows]
                    arr = np.array([[r[c] for c in cols] for r in continue_rows])
                    # a model fitted on (f0,f1,f2) sees permuted columns: only the plumbing is compared
                else:
                    arr = np.array([[r[c] for c in cols] for r in rows])
                try:
                    want_rows = f(arr)
                    want_1 = [f(arr[i:i + 1]) for i in range(len(rows))]
                except Exception:
                    continue      # the estimator itself rejects this input (e.g. permuted columns): outside the domain
                try:
                    got_b = w(rows)
                    got_1 = [w(r) for r in rows]
                except Exception as e:
                    return f'C14:sklearn:model:exception:{type(e).__name__}', f'{name}.{meth} ({make}): {e!r}'
                for i in range(len(rows)):
                    if not same_canon(got_b[i], canon(want_rows[i]), 1e-9):
                        return (f'C14:sklearn:model:batch-canonical-form', f'{name}.{meth} ({make}) row {i}: got {got_b[i]!r}, canonical '
                                f'{canon(want_rows[i])!r} for raw output {want_rows[i]!r}')
                    if not same_canon(got_1[i], canon(want_1[i]), 1e-9):
                        size = np.asarray(want_1[i]).size
                        return (f"C14:sklearn:model:single-canonical-form:{'size-one' if size == 1 else 'vector'}",
                                f'{name}.{meth} ({make}) single input {i}: got {got_1[i]!r}, canonical {canon(want_1[i])!r} for raw output '
                                f'{want_1[i]!r} of shape {np.asarray(want_1[i]).shape}')
                    # single == batch row only "whenever the model itself computes rows independently"
                    independent = same_canon(canon(want_1[i]), canon(want_rows[i]), 1e-12)
                    if independent and not same_canon(got_1[i], got_b[i], 1e-9):
                        return 'C14:sklearn:model:single-vs-batch', f'{name}.{meth} row {i}: single {got_1[i]!r} vs batch {got_b[i]!r}'
    return None


def river_models():
    from river import tree, linear_model, naive_bayes, neighbors, dummy, stats as rstats, forest
    mk = [('HoeffdingTreeClassifier', lambda: tree.HoeffdingTreeClassifier(grace_period=5), 'cls'),
          ('HoeffdingTreeRegressor', lambda: tree.HoeffdingTreeRegressor(grace_period=5), 'reg'),
          ('LinearRegression', lambda: linear_model.LinearRegression(), 'reg'),
          ('LogisticRegression', lambda: linear_model.LogisticRegression(), 'bin'),
          ('GaussianNB', lambda: naive_bayes.GaussianNB(), 'cls'),
          ('KNNClassifier', lambda: neighbors.KNNClassifier(n_neighbors=3), 'cls'),
          ('KNNRegressor', lambda: neighbors.KNNRegressor(n_neighbors=3), 'reg'),
          ('PriorClassifier', lambda: dummy.PriorClassifier(), 'cls'),
          ('StatisticRegressor', lambda: dummy.StatisticRegressor(rstats.Mean()), 'reg'),
          ('ARFClassifier', lambda: forest.ARFClassifier(n_models=3, seed=1), 'cls')]
    return mk


def run_river_model(name, factory, kind, label_kind):
    from ixai.utils.wrappers import RiverWrapper
    from ixai.utils.validators.model import validate_model_function
    rs = np.random.RandomState(3)
    model = factory()
    stream = []
    for i in range(40):
        x = {'a': float(rs.randint(-3, 4)), 'b': float(rs.randint(-3, 4))}
        s = x['a'] - 2 * x['b']
        if kind == 'reg':
            y = s
        elif kind == 'bin':
            y = s > 0
        else:
            c = 0 if s < -1 else (1 if s < 2 else 2)
            y = ['lo', 'mid', 'hi'][c] if label_kind == 'str' else c
        stream.append((x, y))
        model.learn_one(x, y)
    with warnings.catch_warnings():
        warnings.simplefilter('ignore')
        w = validate_model_function(model.predict_one)
    if not isinstance(w, RiverWrapper):
        return 'C14:validate:river-not-wrapped', f'{name}.predict_one -> {type(w).__name__}'
    seen = []
    xs = [x for x, _ in stream[:12]]
    got_batch = None
    for i, x in enumerate(xs):
        raw = model.predict_one(x)
        try:
            got = w(x)
        except Exception as e:
            return f'C14:river:model:exception:{type(e).__name__}', f'{name}: {e!r} for raw prediction {raw!r}'
        if isinstance(raw, str):
            if raw not in seen:
                seen.append(raw)
            want = {l: (1.0 if l == raw else 0.0) for l in seen}
        elif isinstance(raw, dict):
            want = raw
        else:
            want = {'output': float(raw)}
        if got != want:
            return 'C14:river:model:canonical-form', f'{name}: raw {raw!r} -> {got!r}, expected {want!r}'
    got_batch = w(xs[:3])
    if not (isinstance(got_batch, list) and len(got_batch) == 3):
        return 'C14:river:model:batch', f'{name}: list input gives {got_batch!r}'
    if hasattr(model, 'predict_proba_one'):
        wp = RiverWrapper(model.predict_proba_one)
        for x in xs[:4]:
            if wp(x) != model.predict_proba_one(x):
                return 'C14:river:model:dict-passthrough', f'{name}.predict_proba_one: {wp(x)!r}'
    return None


def run_torch_models():
    import torch
    from ixai.utils.wrappers import TorchWrapper
    from ixai.utils.validators.model import validate_model_function
    torch.manual_seed(0)
    names = ['a', 'b', 'c']
    rows = [{'a': 1.0, 'b': -2.0, 'c': 0.5}, {'a': 0.0, 'b': 3.0, 'c': 1.0}, {'a': -1.0, 'b': 1.0, 'c': 2.0}]
    for outdim in (1, 3):
        net = torch.nn.Sequential(torch.nn.Linear(3, 4), torch.nn.ReLU(), torch.nn.Linear(4, outdim))
        with warnings.catch_warnings():
            warnings.simplefilter('ignore')
            w = validate_model_function(net)
        if not isinstance(w, TorchWrapper):
            return 'C14:validate:torch-not-wrapped', f'{type(w).__name__}'
        w2 = TorchWrapper(net, feature_names=['c', 'a', 'b'])
        arr = torch.tensor([[r[n] for n in names] for r in rows], dtype=torch.float32)
        raw = net(arr).detach().numpy()
        got_b = w(rows)
        for i, r in enumerate(rows):
            g1 = w(r)
            want = canon(raw[i])
            if not same_canon(g1, want, 1e-5):
                return (f"C14:torch:model:single-canonical-form:{'size-one' if outdim == 1 else 'vector'}",
                        f'outdim {outdim}: single input gives {g1!r}, canonical {want!r}')
            if not same_canon(got_b[i], want, 1e-5):
                return 'C14:torch:model:batch-canonical-form', f'outdim {outdim}: batch row {i} gives {got_b[i]!r}, canonical {want!r}'
            rp = {k: r[k] for k in ('b', 'c', 'a')}
            arr2 = torch.tensor([[r[n] for n in ('c', 'a', 'b')]], dtype=torch.float32)
            want2 = canon(net(arr2).detach().numpy())
            if not same_canon(w2(rp), want2, 1e-5) or not same_canon(w2(r), want2, 1e-5):
                return 'C14:torch:model:feature-names', f'feature_names order not respected: {w2(rp)!r} vs {want2!r}'
    return None


def run_dispatch():
    from ixai.utils.validators.model import validate_model_function
    from ixai.utils.wrappers import SklearnWrapper, RiverWrapper, TorchWrapper
    with warnings.catch_warnings():
        warnings.simplefilter('ignore')
        for w in (SklearnWrapper(lambda X: np.zeros(len(X))), RiverWrapper(lambda x: 0.0), TorchWrapper(lambda t: t)):
            if validate_model_function(w) is not w:
                return 'C14:validate:wrapper-not-returned-unchanged', type(w).__name__

        def plain(x):
            return {'output': 0.0}
        if validate_model_function(plain) is not plain:
            return 'C14:validate:plain-callable-changed', 'a plain callable must be used directly'
    return None


def run_dataframe_fitted():
    """An estimator fitted on a pandas DataFrame (so it knows feature names) behind SklearnWrapper, in a program that turns warnings into
    errors AFTER importing the library (pytest -W error, warnings.simplefilter('error')): the canonical dicts must still come back,
    for single observations, batches and through validate_model_function."""
    try:
        import pandas as pd
        from sklearn.linear_model import LogisticRegression
        from sklearn.tree import DecisionTreeRegressor
    except Exception:
        return None
    from ixai.utils.wrappers import SklearnWrapper
    from ixai.utils.validators.model import validate_model_function
    rs = np.random.RandomState(3)
    X = pd.DataFrame({'a': rs.normal(size=40), 'b': rs.normal(size=40), 'c': rs.normal(size=40)})
    yc = (X['a'] + X['b'] > 0).astype(int)
    with warnings.catch_warnings():
        warnings.simplefilter('ignore')
        clf = LogisticRegression().fit(X, yc)
        reg = DecisionTreeRegressor(max_depth=3, random_state=0).fit(X, X['a'] * 2 - X['c'])
    rows = [dict(X.iloc[i]) for i in range(4)]
    rows = [{k: float(v) for k, v in r.items()} for r in rows]
    for name, fn, raw in (('LogisticRegression.predict_proba', clf.predict_proba, lambda A: clf.predict_proba(A)),
                          ('DecisionTreeRegressor.predict', reg.predict, lambda A: reg.predict(A))):
        with warnings.catch_warnings():
            warnings.simplefilter('ignore')
            want = [canon(o) for o in raw(np.array([[r['a'], r['b'], r['c']] for r in rows]))]
        for how, mk in (('SklearnWrapper', lambda: SklearnWrapper(fn, feature_names=['a', 'b', 'c'])), ('validate_model_function', lambda: validate_model_function(fn))):
            with warnings.catch_warnings():
                warnings.simplefilter('error')
                try:
                    w = mk()
                    single = [w(dict(r)) for r in rows]
                    batch = w([dict(r) for r in rows])
                except Exception as e:
                    return 'C14:sklearn:warnings-as-errors', f'{name} via {how} under warnings.simplefilter("error") raised {type(e).__name__}: {e}'
            for got in (single, batch):
                if len(got) != len(want) or any(not same_canon(g, w_, tol=1e-9) for g, w_ in zip(got, want)):
                    return 'C14:sklearn:dataframe-fitted', f'{name} via {how}: {got!r} vs {want!r}'
    return None


@st.composite
def synth_cases(draw):
    d = draw(st.integers(1, 4))
    names = draw(cfgs.names_st(d, kinds=('str', 'int', 'mixed')))
    batch = draw(st.booleans())
    n = draw(st.integers(1, 5)) if batch else 1
    shape = draw(st.sampled_from(['(n,)', '(n,1)', '(n,c)'] if batch else ['()', '(1,)', '(1,1)', '(n,c)', '(c,)']))
    c = draw(st.integers(1, 4)) if shape in ('(n,c)', '(c,)') else 1
    if shape == '(c,)' and c == 1:
        c = 2
    ncalls = draw(st.sampled_from([1, 2, 2, 3]))
    ints_first = draw(st.booleans())
    fn = None
    if draw(st.booleans()):
        k = draw(st.integers(1, d))
        fn = draw(st.permutations(list(range(d))))[:k]
    return {'names': names, 'weights': [draw(st.integers(-3, 3)) for _ in range(d)], 'shape': shape, 'c': c,
            'dtype': draw(st.sampled_from(sorted(DTYPES))), 'wrapper': draw(st.sampled_from(['sklearn', 'sklearn', 'torch'])),
            'batch': batch, 'feature_names': fn,
            # 1-3 consecutive calls on the same wrapper; the first one often all-integer, later ones real-valued
            'calls': [{'rows': [[draw(st.integers(-4, 4)) if (ci == 0 and ints_first) else draw(st.sampled_from([0.75, -2.25, 1.5, 2.6, -0.5, 3, -1]))
                                 for _ in range(d)] for _ in range(n)],
                       'perms': [draw(st.integers(0, 5)) for _ in range(n)]} for ci in range(ncalls)]}


@st.composite
def river_seq_cases(draw):
    kinds = draw(st.sampled_from([['num', 'bool', 'np'], ['str'], ['str', 'str', 'num'], ['dict'], ['num', 'str', 'dict', 'np', 'bool']]))
    outs = []
    for _ in range(draw(st.integers(1, 10))):
        k = draw(st.sampled_from(kinds))
        if k in ('num', 'np'):
            v = draw(st.one_of(st.integers(-5, 5), st.floats(-10, 10, allow_nan=False)))
        elif k == 'bool':
            v = draw(st.integers(0, 1))
        elif k == 'str':
            v = draw(st.integers(0, 3))
        else:
            v = draw(st.lists(st.tuples(st.sampled_from(['x', 'y', 0, 1]), st.sampled_from([0.1, 0.5, 0.9])).map(list), min_size=1,
                              max_size=3, unique_by=lambda kv: kv[0]))
        outs.append([k, v])
    ncalls = draw(st.integers(1, 6))
    plan = draw(st.lists(st.sampled_from([1, 1, -1, -2, -3, -4]), min_size=ncalls, max_size=ncalls))
    rows = []
    for size in plan:
        batch = []
        for _ in range(abs(size)):
            keys = draw(st.permutations(['a', 'b', 'c']))[:draw(st.integers(1, 3))]
            batch.append([[k, draw(st.integers(0, 2))] for k in keys])
        if len(batch) >= 2 and draw(st.booleans()):
            # same value sequence under different keys
            vals = [v for _, v in batch[0]]
            other = list(reversed([k for k, _ in batch[0]])) if len(batch[0]) > 1 else ['b' if batch[0][0][0] == 'a' else 'a']
            batch[1] = [[k, v] for k, v in zip(other, vals)]
        rows.append(batch)
    return {'outputs': outs, 'plan': plan, 'rows': rows}


SUBS = {'synth': run_synth, 'river_seq': run_river_seq}


def replay(sub, case):
    if sub in SUBS:
        return SUBS[sub](case)
    if sub == 'sklearn_model':
        models, _, X = sklearn_models(True)
        for name, est in models:
            if name == case['name']:
                err = run_sklearn_model(name, est, X, X[:3])
                return Result(err is None, key=err[0] if err else None, detail=err[1] if err else None)
        return Result(True)
    if sub == 'river_model':
        for name, fac, kind in river_models():
            if name == case['name']:
                err = run_river_model(name, fac, kind, case['labels'])
                return Result(err is None, key=err[0] if err else None, detail=err[1] if err else None)
        return Result(True)
    if sub == 'torch_model':
        err = run_torch_models()
        return Result(err is None, key=err[0] if err else None, detail=err[1] if err else None)
    if sub == 'dataframe_fitted':
        err = run_dataframe_fitted()
        return Result(err is None, key=err[0] if err else None, detail=err[1] if err else None)
    err = run_dispatch()
    return Result(err is None, key=err[0] if err else None, detail=err[1] if err else None)


def run(ctx):
    ctx.rule, ctx.assumptions = RULE, ASSUMPTIONS
    ctx.search('synth', synth_cases(), run_synth, ctx.n(2500, 160000))
    ctx.search('river_seq', river_seq_cases(), run_river_seq, ctx.n(600, 48000))
    if ctx.shard != 0:
        return
    err = run_dispatch()
    ctx.count(1, 'dispatch')
    if err:
        ctx.violation('dispatch', err[0], err[1], {})
    err = run_dataframe_fitted()
    ctx.count(1, 'dataframe_fitted')
    if err:
        ctx.violation('dataframe_fitted', err[0], err[1], {})
    models, skipped, X = sklearn_models(ctx.thorough())
    ctx.extra['sklearn_estimators_checked'] = [n for n, _ in models]
    ctx.extra['sklearn_estimators_skipped'] = skipped[:80]
    for name, est in models:
        err = run_sklearn_model(name, est, X, X[:3])
        ctx.count(1, 'sklearn_model')
        ctx.add_nontrivial('sklearn_model', name, sample={'estimator': name})
        if err:
            ctx.violation('sklearn_model', err[0], err[1], {'name': name})
    for name, fac, kind in river_models():
        for labels in (['int', 'str'] if kind == 'cls' else ['int']):
            try:
                err = run_river_model(name, fac, kind, labels)
            except Exception as e:
                ctx.label('river_model_skipped:' + name)
                continue
            ctx.count(1, 'river_model')
            ctx.add_nontrivial('river_model', [name, labels], sample={'river_model': name, 'labels': labels})
            if err:
                ctx.violation('river_model', err[0], err[1], {'name': name, 'labels': labels})
    err = run_torch_models()
    ctx.count(1, 'torch_model')
    if err:
        ctx.violation('torch_model', err[0], err[1], {})
