"""C17 - a failing callback leaves the explainer's estimates untouched (fault enumeration; DESIGN 3, C17)."""
import random

import numpy as np
from hypothesis import strategies as st

from ..core import Result
from ..exact import Q
from ..doubles import (Model, Loss, Log, Faults, Injected, FAULT_CLASSES, is_injected, recording_imputer, recording_storage_class,
                       num)
from .. import cfgs, gen, ref, refx
from . import c05

LEVEL = 'fault_enumeration'
RULE = ("For each generated (explainer in {IncrementalPFI, IncrementalSage, BatchSage normal/original, IntervalSage}, small config, "
        "stream of 2..6 observations, seeds) a fault-free dry run counts the callback invocations K_t of every explain_one call t "
        "(model, loss, imputer-before-delegation, imputer-after, storage); then for EVERY (t, k <= K_t) the stream is replayed "
        "deterministically from scratch with the k-th callback of call t raising (the exception class cycles with the position through a custom Exception, StopIteration, KeyError, ZeroDivisionError, ValueError, AttributeError, IndexError, and the BaseExceptions KeyboardInterrupt and GeneratorExit); plus pairs of faults on consecutive calls (quick: a "
        "sample, thorough: all). Oracle: the same exception object propagates out of explain_one; importance values, variances, "
        "marginal loss, model loss, marginal prediction (exact rationals) equal their values before the call; after catching and "
        "continuing the stream the independent exact reference restricted to the successful calls still agrees after every call "
        "(which implies the C01 identity for SAGE), resp. the C05 efficiency identity holds for Batch/Interval. Non-trivial: a fault on "
        "a call t >= 2 at a position after the first callback; distinct by digest of (case, fault plan). RIVER LOSS: the loss handed to "
        "IncrementalPFI / IncrementalSage is a river Metric object (MAE / MSE subclass) whose update() raises at the k-th loss evaluation of "
        "call t, for every (t, k): the exception must come out of explain_one, estimates and seen_samples stay what they were.")
ASSUMPTIONS = ["faults are raised by the doubles at callback entry (imputer: before and after delegating to the library imputer; "
               "storage: before the storage is touched)",
               "if a fault on the very first call leaves the storage empty the harness seeds it through the public update_storage()"]

ATTRS = {'pfi': ['importance_values', 'variances'],
         'sage': ['importance_values', 'variances', 'marginal_loss', 'model_loss', 'marginal_prediction', 'explained_loss'],
         'batch': ['importance_values'], 'batch_original': ['importance_values'], 'interval': ['importance_values']}


def _freeze(v):
    """A value that later in-place mutation cannot change (estimates may hold mutable NumPy arrays)."""
    if isinstance(v, dict):
        return {k: _freeze(x) for k, x in v.items()}
    if isinstance(v, np.ndarray):
        return ('ndarray',) + tuple(float(x) for x in v.reshape(-1))
    return v


def _snap(ex, cls):
    return {a: _freeze(getattr(ex, a)) for a in ATTRS[cls]}


class Run:
    """One deterministic execution of the case's stream with a fault plan {call index: callback ordinal}."""

    def __init__(self, case):
        self.case = case
        self.cls = case['cls']
        cfg = case['cfg']
        self.cfg = cfg
        random.seed(cfg['seeds'][0])
        np.random.seed(cfg['seeds'][1])
        if self.cls in ('pfi', 'sage'):
            self.h = cfgs.Harness(cfg, faults=True)
            self.faults = self.h.faults
            self.ex = self.h.pfi() if self.cls == 'pfi' else self.h.sage()
            self.h.prefill(self.ex)
            self.ref = refx.PfiRef(cfg) if self.cls == 'pfi' else refx.SageRef(cfg)
            self.imputer = self.h.imputer
            self.storage = self.h.storage
            self.names = self.h.names
            self.mode = self.h.mode
        else:
            self._build_batch()
        self.cmp = refx.Cmp(self.mode)

    def _build_batch(self):
        from ixai.explainer.sage import BatchSage, IntervalSage
        from ixai.storage import BatchStorage, IntervalStorage
        from ixai.imputer import MarginalImputer
        cfg = self.cfg
        self.names = list(cfg['names'])
        self.mode = cfg['mode']
        self.log = Log()
        self.faults = Faults()
        self.model = Model(cfg['model'], self.names, self.mode, log=self.log, faults=self.faults)
        self.loss = Loss(cfg['loss'], self.mode, log=self.log, faults=self.faults)
        self.model_ref = Model(cfg['model'], self.names, 'exact', record=False)
        self.loss_ref = refx.ExactLoss(cfg['loss'])
        if self.cls == 'interval':
            self.storage = recording_storage_class(IntervalStorage)(size=cfg['storage_length'], store_targets=True)
        else:
            self.storage = recording_storage_class(BatchStorage)(store_targets=True)
        self.storage._faults = self.faults
        self.imputer = recording_imputer(MarginalImputer(self.model, 'joint', self.storage), faults=self.faults)
        if self.cls == 'interval':
            self.ex = IntervalSage(self.model, self.names, self.loss, n_inner_samples=cfg['n_inner'], storage=self.storage,
                                   imputer=self.imputer, interval_length=cfg['interval'])
        else:
            self.ex = BatchSage(self.model, self.names, self.loss, n_inner_samples=cfg['n_inner'], storage=self.storage,
                                imputer=self.imputer)

    def row(self, r):
        if self.cls in ('pfi', 'sage'):
            return self.h.row(r)
        x = {n_: num(v, self.mode) for n_, v in zip(self.names, r['x'])}
        return x, num(r['y'], self.mode)

    def execute(self, plan):
        """Returns (counts per call, failure or None).  failure = (key, detail)."""
        counts = []
        stream = self.cfg['stream']
        d = len(self.names)
        for t, r in enumerate(stream):
            x, y = self.row(r)
            kw = {}
            if self.cls in ('pfi', 'sage'):
                if r.get('n_inner') is not None:
                    kw['n_inner_samples'] = r['n_inner']
                if not r.get('upd', True):
                    kw['update_storage'] = False
                if self.ex.seen_samples >= 1 and len(self.storage) == 0:
                    self.faults.reset_window(None)
                    self.ex.update_storage(x, y)   # see ASSUMPTIONS
            else:
                kw['verbose'] = bool(self.cfg.get('verbose'))     # the progress-bar path is a code path of its own
                if self.cls == 'batch_original':
                    kw['original_sage'] = True
                if self.cls == 'interval':
                    kw['force_explain'] = bool(r.get('force'))
            before = _snap(self.ex, self.cls)
            seen_before = getattr(self.ex, 'seen_samples', None)
            mark = len(self.imputer.calls)
            self.faults.reset_window(plan.get(t))
            if plan.get(t) is not None:
                self.faults.exc_class = FAULT_CLASSES[(plan[t] + t) % len(FAULT_CLASSES)]   # the exception class varies with the position
            raised = None
            other = None
            try:
                self.ex.explain_one(x, y, **kw)
            except BaseException as e:       # noqa: BLE001 - the injected fault comes in several classes, also KeyboardInterrupt
                if is_injected(e) and e is self.faults.raised:
                    raised = e
                elif isinstance(e, Exception):
                    other = e
                else:
                    raise                    # a real KeyboardInterrupt / SystemExit
            if other is not None:
                kind = self.faults.kinds[-1] if self.faults.kinds else 'none'
                if self.faults.raised is not None:
                    return counts, (f'C17:{self.cls}:{kind}:exception-replaced',
                                    f'call {t + 1}: the injected {type(self.faults.raised).__name__} was replaced by {other!r}')
                return counts, (f'C17:{self.cls}:unexpected-exception:{type(other).__name__}', f'call {t + 1}: {other!r}')
            counts.append(self.faults.count)
            kinds = list(self.faults.kinds)
            self.faults.reset_window(None)
            if self.faults.raised is not None or raised is not None:
                pass
            if plan.get(t) is not None and plan[t] <= len(kinds):
                kind = kinds[plan[t] - 1]
                if raised is None:
                    return counts, (f'C17:{self.cls}:{kind}:exception-swallowed',
                                    f'call {t + 1}: callback {plan[t]} ({kind}) raised {self.faults.exc_class.__name__} but explain_one returned normally')
                after = _snap(self.ex, self.cls)
                changed = [a for a in ATTRS[self.cls] if after[a] != before[a]]
                if changed:
                    phase = 'chain' if kind != 'storage' else 'storage-update'
                    return counts, (f'C17:{self.cls}:{kind}:estimates-changed:{"+".join(changed)}',
                                    f'call {t + 1} of {len(stream)}, callback {plan[t]}/{len(kinds)} ({kind}) raised; changed: ' +
                                    '; '.join(f'{a}: {before[a]!r} -> {after[a]!r}' for a in changed[:3]))
                continue
            # successful call: the reference advances
            err = self._advance_reference(t, x, y, r, mark, seen_before, d)
            if err:
                return counts, err
        return counts, None

    def _advance_reference(self, t, x, y, r, mark, seen_before, d):
        if self.cls in ('pfi', 'sage'):
            calls = self.imputer.calls[mark:]
            if seen_before == 0:
                if calls:
                    return f'C17:{self.cls}:first-call', 'explained although nothing had been seen'
                return None
            eff = r['n_inner'] if r.get('n_inner') is not None else self.cfg['n_inner']
            err = self.ref.step(x, y, calls, eff)
            if err:
                return f'C17:{self.cls}:resume:{err[0]}', f'call {t + 1}: {err[1]}'
            if self.mode == 'float' and getattr(self.ref, 'ill_conditioned', False):
                # float twin whose marginal-prediction normaliser is (near) zero: a discontinuity, float and exact values legitimately
                # part ways from here on (same rule as C03); the snapshot comparisons around the faults stay in force
                self.float_discarded = True
                return None
            want = self.ref.expected()
            tol = 64 * (d + 2) * (t + 2) * refx.EPS * self.ref.loss.scale
            for a in want:
                got = getattr(self.ex, a)
                if isinstance(want[a], dict):
                    bad = self.cmp.dict(got, want[a], tol if a != 'variances' else tol * self.ref.loss.scale)
                else:
                    bad = None if self.cmp.num(got, want[a], tol) else f'{got!r} vs reference {want[a]!r}'
                if bad:
                    return (f'C17:{self.cls}:resume:{a}',
                            f'after resuming, call {t + 1}: {a} disagrees with the reference over the successful calls: {bad}')
            if self.cls == 'sage':
                tot = sum((refx.lift(v) for v in self.ex.importance_values.values()), Q(0))
                if not self.cmp.num(tot, want['marginal_loss'] - want['model_loss'], tol):
                    return 'C17:sage:resume:efficiency', f'call {t + 1}: C01 identity broken after resuming'
            return None
        # batch / interval: values are recomputed from the stored data; efficiency must hold on what is stored
        if self.cls == 'interval':
            if not (r.get('force') or self.ex.seen_samples % self.cfg['interval'] == 0):
                return None
        xs, ys = self.storage.get_data()
        xs, ys = list(xs), list(ys)
        if not xs:
            return None
        want_total, _ = c05._expected_total(self.model_ref, self.loss_ref, xs, ys)
        tol = 64 * (d + 2) * (len(xs) + 1) * refx.EPS * self.loss_ref.scale
        tot = sum(self.ex.importance_values.values(), Q(0))
        if not self.cmp.num(tot, want_total, tol):
            return f'C17:{self.cls}:resume:efficiency', f'call {t + 1}: efficiency identity broken after resuming ({tot!r} vs {want_total!r})'
        return None


def enumerate_case(case, ctx=None, pairs='sample'):
    """Returns Result; enumerates every single fault position (and fault pairs)."""
    dry = Run(case)
    counts, fail = dry.execute({})
    if fail and fail[0].endswith('unexpected-exception:TypeError') and case['cfg'].get('mode') == 'exact' and case['cfg']['loss'].get('kind') == '01':
        return Result(True, nontrivial=False, labels=['exact_arithmetic_unsupported', 'discontinuous_loss_not_compared_in_floats'])
    if fail and fail[0].endswith('unexpected-exception:TypeError') and case['cfg'].get('mode') == 'exact':
        # float-only (NumPy) functions applied to losses: enumerate the fault positions of the float twin instead
        case = dict(case, cfg=dict(case['cfg'], mode='float'))
        dry = Run(case)
        counts, fail = dry.execute({})
    if fail:
        return Result(False, key=fail[0].replace('C17:', 'C17:dry-run:'), detail=fail[1])
    positions = [(t, k) for t, K in enumerate(counts) for k in range(1, K + 1)]
    plans = [{t: k} for t, k in positions]
    # pairs on consecutive calls
    pair_plans = []
    for t in range(len(counts) - 1):
        for k1 in range(1, counts[t] + 1):
            for k2 in range(1, counts[t + 1] + 1):
                pair_plans.append({t: k1, t + 1: k2})
    if pairs == 'sample':
        rnd = random.Random(len(positions) * 7919 + sum(counts))
        pair_plans = rnd.sample(pair_plans, min(len(pair_plans), 12))
    nontrivial_plans = 0
    executed = 0
    known_hits = 0
    for plan in plans + pair_plans:
        run = Run(case)
        _c, fail = run.execute(plan)
        executed += 1
        if any(t >= 1 and k >= 2 for t, k in plan.items()):
            nontrivial_plans += 1
        if fail:
            if ctx is not None and ctx.is_known(fail[0]):
                ctx.known_seen[fail[0]] += 1
                known_hits += 1
                continue
            res = Result(False, key=fail[0], detail=f'fault plan {plan}: {fail[1]}')
            res.labels = [case['cls']]
            return res
    res = Result(True, nontrivial=nontrivial_plans > 0, labels=[case['cls'], case['cfg']['mode']])
    res.detail = {'plans': executed, 'positions': len(positions), 'pairs': len(pair_plans), 'nontrivial_plans': nontrivial_plans,
                  'known': known_hits}
    return res


@st.composite
def cases(draw):
    cls = draw(st.sampled_from(['pfi', 'sage', 'sage', 'batch', 'batch_original', 'interval']))
    if cls in ('pfi', 'sage'):
        cfg = draw(cfgs.config_st(dmax=3, tmin=2, tmax=5, modes=('exact',)))
        cfg['n_inner'] = min(cfg['n_inner'], 2)
        for r in cfg['stream']:
            if r.get('n_inner') == 3:
                r['n_inner'] = 2
        if cls == 'sage' and draw(st.integers(0, 2)) == 0:
            # float twin whose model returns size-one NumPy ARRAYS as output values (numeric but mutable)
            cfg['mode'] = 'float'
            cfg['model']['array_out'] = True
            cfg['model'].pop('out_scale', None)
        return {'cls': cls, 'cfg': cfg}
    d = draw(st.integers(1, 3))
    stream = draw(cfgs.stream_st(d, 2, 4, per_call=False))
    for r in stream:
        r['force'] = draw(st.booleans())
    cfg = {'names': draw(cfgs.names_st(d)), 'model': draw(cfgs.model_st(d)), 'loss': draw(cfgs.loss_st()), 'mode': 'exact',
           'seeds': [draw(gen.seed32), draw(gen.seed32)], 'n_inner': draw(st.integers(1, 2)),
           'interval': draw(st.integers(1, 3)), 'storage_length': draw(st.integers(1, 4)), 'stream': stream, 'd': d,
           'verbose': draw(st.booleans())}
    return {'cls': cls, 'cfg': cfg}


SUBS = {'faults': enumerate_case, 'river_loss': lambda case: run_river_loss(case)}


def replay(sub, case):
    if sub == 'river_loss':
        return run_river_loss(case)
    return enumerate_case(case, pairs='all')


def self_check():
    ref.self_check()


def _faulty_metric(kind):
    """A river metric whose update() raises on demand - BEFORE it touches its own state (the fault is the callback's, the metric
    stays what it was).  The documented way to hand a loss to an explainer is the metric object itself."""
    from river import metrics
    base = {'mae': metrics.MAE, 'mse': metrics.MSE}[kind]

    class FaultyMetric(base):
        calls = 0
        fail_at = None
        raised = None

        def update(self, y_true, y_pred, *a, **k):
            cls = type(self)
            cls.calls += 1
            if cls.fail_at is not None and cls.calls == cls.fail_at:
                cls.raised = Injected(f'metric.update call {cls.calls}')
                raise cls.raised
            return super().update(y_true, y_pred, *a, **k)

    return FaultyMetric


def run_river_loss(case):
    """The loss is a river Metric OBJECT: for every loss evaluation k of every explain_one call t the metric's update() raises once;
    the exception must come out of explain_one and the estimates must be what they were; the stream then carries on."""
    from ixai.explainer import IncrementalPFI
    from ixai.explainer.sage import IncrementalSage
    names = [f'f{i}' for i in range(case['d'])]
    w = case['weights']

    def model(x):
        return {'output': sum(w[i % len(w)] * x[n] for i, n in enumerate(names))}
    rs = random.Random(case['vseed'])
    stream = [({n: float(rs.randint(-4, 4)) for n in names}, float(rs.randint(-3, 3))) for _ in range(case['T'])]
    positions = 0
    for t_fail in range(1, case['T']):
        k = 1
        while True:
            M = _faulty_metric(case['metric'])
            random.seed(case['seeds'][0])
            np.random.seed(case['seeds'][1])
            kw = {'n_inner_samples': case['n_inner'], 'dynamic_setting': case['dynamic'], 'smoothing_alpha': case['alpha']}
            cls_ = IncrementalPFI if case['cls'] == 'pfi' else IncrementalSage
            try:
                ex = cls_(model, M(), names, **kw)
            except Exception as e:
                return Result(False, key=f'C17:river-loss:construct:{type(e).__name__}', detail=repr(e))
            beyond = False
            for t, (x, y) in enumerate(stream):
                before = _snap(ex, case['cls'])
                seen = ex.seen_samples
                M.calls, M.fail_at, M.raised = 0, (k if t == t_fail else None), None
                try:
                    ex.explain_one(dict(x), y)
                    raised = None
                except Injected as e:
                    raised = e
                except Exception as e:
                    if M.raised is not None:
                        return Result(False, key='C17:river-loss:exception-replaced', detail=f'call {t + 1}: the injected fault was replaced by {e!r}')
                    return Result(False, key=f'C17:river-loss:unexpected-exception:{type(e).__name__}', detail=f'call {t + 1}: {e!r}')
                if t != t_fail:
                    continue
                if M.raised is None:
                    beyond = True          # fewer than k loss evaluations in this call: this position does not exist
                    break
                positions += 1
                if raised is None or raised is not M.raised:
                    return Result(False, key='C17:river-loss:exception-swallowed',
                                  detail=(f'{case["cls"]}: call {t + 1}, loss evaluation {k}: metric.update() raised, explain_one returned normally '
                                          f'(importance values {dict(ex.importance_values)!r})'))
                after = _snap(ex, case['cls'])
                changed = [a for a in ATTRS[case['cls']] if after[a] != before[a]]
                if changed or ex.seen_samples != seen:
                    return Result(False, key=f'C17:river-loss:estimates-changed:{"+".join(changed) or "seen_samples"}',
                                  detail=f'{case["cls"]}: call {t + 1}, loss evaluation {k} raised; changed: ' +
                                         '; '.join(f'{a}: {before[a]!r} -> {after[a]!r}' for a in changed[:3]))
            if beyond:
                break
            k += 1
    return Result(True, nontrivial=positions >= 3, labels=[case['cls'], 'river_' + case['metric'], f'positions>={min(positions, 8)}'])


@st.composite
def river_cases(draw):
    return {'cls': draw(st.sampled_from(['sage', 'pfi'])), 'metric': draw(st.sampled_from(['mae', 'mse'])), 'd': draw(st.integers(1, 3)),
            'weights': [draw(st.sampled_from([1.0, -0.5, 2.0])) for _ in range(3)], 'T': draw(st.integers(3, 5)),
            'n_inner': draw(st.integers(1, 2)), 'dynamic': draw(st.booleans()), 'alpha': draw(st.sampled_from([0.5, 0.1, 1.0])),
            'vseed': draw(st.integers(0, 10 ** 6)), 'seeds': [draw(gen.seed32) % 2 ** 31, draw(gen.seed32) % 2 ** 31]}


def run(ctx):
    ctx.rule, ctx.assumptions = RULE, ASSUMPTIONS
    totals = {'fault_plans_executed': 0, 'single_positions': 0, 'pair_plans': 0}

    def run_case(case):
        res = enumerate_case(case, ctx, pairs='all' if ctx.thorough() else 'sample')
        if isinstance(res.detail, dict):
            totals['fault_plans_executed'] += res.detail['plans']
            totals['single_positions'] += res.detail['positions']
            totals['pair_plans'] += res.detail['pairs']
        return res

    if not ctx.search('faults', cases(), run_case, ctx.n(100, 6400)):
        return
    ctx.search('river_loss', river_cases(), run_river_loss, ctx.n(40, 3200))
    ctx.extra.update(totals)
    ctx.extra['exhaustive_subspaces'] = ['per generated case: every (call t, callback k) single-fault position']
