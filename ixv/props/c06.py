"""C06 - imputers replace exactly the requested features with genuine background values (DESIGN 3, C06)."""
import copy
import random

import numpy as np
from hypothesis import strategies as st

from ..core import Result
from ..doubles import Model, num
from .. import cfgs, gen, rng
from . import c07

LEVEL = 'exploration'
RULE = ("1..4 ROUNDS of [store 0..12 more rows, then impute] with the SAME imputer object (so whatever an imputer remembers between calls meets "
        "a storage that changed meanwhile); storage kind (Batch, Interval, Sequence, UniformReservoir, GeometricReservoir) and CONTENT produced by that "
        "update history (so reservoirs after replacement and the deque of IntervalStorage are covered), instance x over the same "
        "d in 1..5 feature names (str/int/float mixtures), subset as list / tuple / set / frozenset / dict-keys view (empty, proper, "
        "full), MarginalImputer joint / product or DefaultImputer, n_samples 1..4, the library's random draws SCRIPTED by Hypothesis. "
        "Oracle on the recorded model inputs: equal to x outside the subset; inside: the configured default, or a stored row r with "
        "input[f] == r[f] (product), one r for all f of that call (joint); the return value is a list of exactly n_samples predictions, "
        "each the model's output for the corresponding recorded input (DefaultImputer: the one prediction n times); empty subset -> every "
        "input equals x and there are n_samples predictions; deep snapshots of x, the subset and storage.get_data() are unchanged - also when a model evaluation inside impute raises (every "
        "fifth round injects such a fault); observations differ in key order and some carry an optional key: the model input must have "
        "exactly the instance's keys in the instance's order; defaults are also given as defaultdict / dict with __missing__. "
        "In two fifths of the cases the storage is a user SUBCLASS whose get_data() exposes only the most recent 1..2 rows (the imputer must read the storage through that documented method). A quarter of the cases store SPARSE observations (defaultdicts that leave features out: reading one must not write into it). WRAPPED: the model function is the library's own SklearnWrapper (built with the feature names) and n_samples is 1..700 (255/256/257, 300, 513, 700): exactly n_samples predictions, inputs as above. "
        "Non-trivial: proper non-empty subset, >=2 distinct stored rows, n_samples>=2, x differs from every stored row on the subset; "
        "distinct by case digest.")
ASSUMPTIONS = ["one-shot iterators are not generated as subsets (no caller passes one; re-iteration is inherent in n_samples > 1)",
               "the storage is non-empty whenever MarginalImputer is asked (randrange(0) is the documented callers' precondition)"]

SUBSET_TYPES = ['list', 'tuple', 'set', 'frozenset', 'keys', 'generator', 'iter']
# hash-equal values of different type or sign: True == 1 == 1.0, 0.0 == -0.0
typed_value = st.sampled_from([['b', 1], ['i', 1], ['f', 1], ['b', 0], ['i', 0], ['f', 0], ['nz'], ['i', 2], ['f', 2]])


def _subset(kind, names):
    if kind == 'list':
        return list(names)
    if kind == 'tuple':
        return tuple(names)
    if kind == 'set':
        return set(names)
    if kind == 'frozenset':
        return frozenset(names)
    if kind == 'generator':
        return (n for n in list(names))     # a one-shot iterable
    if kind == 'iter':
        return iter(list(names))
    return {n: None for n in names}.keys()


def run_case(case):
    """Rounds: [more rows are stored] -> impute(...) with the SAME imputer object, so that anything an imputer remembers between
    calls (caches of the background) is confronted with a storage that has changed in the meantime."""
    from ixai.imputer import MarginalImputer, DefaultImputer
    names = list(case['names'])
    d = len(names)
    mode = case['mode']
    model = Model(case['spec'], names, mode)
    scfg = dict(case['storage'], st=case['storage'].get('st', True))
    src = rng.Scripted(case['script'])
    tag = case['imputer']
    rounds = case.get('rounds') or [{'rows': case['rows'], 'x': case['x'], 'subset': case['subset'], 'subset_type': case['subset_type'],
                                     'n_samples': case['n_samples'], 'positional': case.get('positional')}]
    nt = False
    labels = [tag, case['storage']['cls']]
    with rng.patched_random(src):
        storage = c07.make(scfg)
        if case.get('window_view'):
            # a user subclass overriding the documented get_data(): only the most recent rows count as "currently stored"
            storage.__class__ = _window_view(type(storage), case['window_view'])
        if tag == 'default':
            defaults = {n: num(v, mode) for n, v in zip(names, case['defaults'])}
            imp = DefaultImputer(model, cfgs.defaults_container(defaults, case.get('defaults_container', 'dict')))
        else:
            defaults = None
            imp = MarginalImputer(model, tag, storage)
        n_rows = 0
        for ri, rnd in enumerate(rounds):
            for r in rnd['rows']:
                n_rows += 1
                obs = _obs(names, r, mode, n_rows % 4 if case.get('vary_keys') else 0,
                           n_rows if case.get('vary_keys') and n_rows % 3 == 0 else None)
                if case.get('sparse_rows'):
                    # the sparse-feature idiom: observations are defaultdicts and leave out features whose value is the default
                    import collections
                    zero = num(0, mode)
                    obs = collections.defaultdict(lambda zero=zero: zero, obs)
                    if n_rows % 3 == 1 and d >= 2:
                        del obs[names[(n_rows // 3) % d]]
                storage.update(obs, ['y', n_rows])
            if len(storage) == 0:
                continue
            res = one_impute(imp, model, storage, names, mode, tag, defaults, rnd, ri)
            if isinstance(res, Result):
                return res
            nt = nt or res[0]
            labels += res[1]
    if len(rounds) > 1:
        labels.append('multi_round')
    return Result(True, nontrivial=nt, labels=sorted(set(labels)))


def _typed(v, mode):
    """Values that compare equal but are different objects for a type-sensitive model: True == 1 == 1.0, 0.0 == -0.0."""
    if isinstance(v, list):
        if mode == 'exact':
            return num(0 if v[0] == 'nz' else v[1], mode)
        return {'b': lambda: bool(v[1]), 'i': lambda: int(v[1]), 'f': lambda: float(v[1]), 'nz': lambda: -0.0}[v[0]]()
    return num(v, mode)


def _strict(v):
    return (type(v).__name__, repr(v))


def _obs(names, values, mode, perm=0, opt=None):
    items = [(n, _typed(v, mode)) for n, v in zip(names, values)]
    if perm and len(items) > 1:
        items = list(reversed(items)) if perm % 2 else items[1:] + items[:1]
    x = dict(items)
    if opt is not None:
        x['opt0'] = num(opt, mode)      # an optional key that only some observations carry
    return x


_WINDOW_VIEWS = {}


def _window_view(cls, m):
    key = (cls, m)
    if key not in _WINDOW_VIEWS:
        class WindowView(cls):
            def get_data(self):
                xs, ys = super().get_data()
                xs, ys = list(xs), list(ys)
                return xs[-m:], (ys[-m:] if ys else ys)

            def __len__(self):
                return len(self.get_data()[0])
        _WINDOW_VIEWS[key] = WindowView
    return _WINDOW_VIEWS[key]


def _rv(r, f):
    """The value feature f has in the stored observation r - WITHOUT touching r (reading a defaultdict inserts the key)."""
    if f in r:
        return r[f]
    fac = getattr(r, 'default_factory', None)
    if fac is None:
        raise KeyError(f)
    return fac()


def one_impute(imp, model, storage, names, mode, tag, defaults, rnd, ri):
    d = len(names)
    x = _obs(names, rnd['x'], mode, rnd.get('x_perm') or 0, rnd.get('x_opt'))
    sub_names = [names[i] for i in rnd['subset']]
    stype = rnd['subset_type']
    if stype in ('generator', 'iter') and not (tag == 'default' or rnd['n_samples'] == 1):
        stype = 'list'     # re-iteration is inherent in n_samples > 1 for the sampling imputers: one-shot iterables only where sound
    subset = _subset(stype, sub_names)
    one_shot = stype in ('generator', 'iter')
    model.mutate_input = bool(rnd.get('mutating_model'))
    xs_before = [dict(r) for r in storage.get_data()[0]]
    ys_before = list(storage.get_data()[1])
    x_before = dict(x)
    subset_before = list(sub_names) if one_shot else list(subset)
    n = rnd['n_samples']
    mark = len(model.calls)
    fault_at = rnd.get('fault_at')
    if fault_at:
        from ..doubles import Faults, Injected
        model.faults = Faults()
        model.faults.reset_window(fault_at)
    try:
        if rnd.get('positional'):
            preds = imp.impute(subset, x, n)
        else:
            preds = imp.impute(feature_subset=subset, x_i=x, n_samples=n)
    except Exception as e:
        injected = fault_at and type(e).__name__ == 'Injected'
        model.faults = None
        if not injected:
            return Result(False, key=f'C06:exception:{type(e).__name__}',
                          detail=f'round {ri + 1}: impute raised {e!r} (subset type {rnd["subset_type"]}, {tag})')
        # a failing model evaluation: the exception propagated; nothing may have been modified
        if x != x_before or list(x) != list(x_before):
            return Result(False, key=f'C06:{tag}:instance-modified-after-fault',
                          detail=f'round {ri + 1}: model evaluation {fault_at} raised; x_i was left as {x!r} instead of {x_before!r}')
        if not one_shot and list(subset) != subset_before:
            return Result(False, key=f'C06:{tag}:subset-modified-after-fault', detail='subset changed')
        if [dict(r) for r in storage.get_data()[0]] != xs_before or list(storage.get_data()[1]) != ys_before:
            return Result(False, key=f'C06:{tag}:storage-modified-after-fault', detail='storage content changed by a failed impute')
        return False, ['fault_injected']
    model.faults = None
    calls = model.calls[mark:]
    where = f'round {ri + 1}: '
    if x != x_before or list(x) != list(x_before):
        return Result(False, key=f'C06:{tag}:instance-modified', detail=where + f'x_i changed from {x_before!r} to {x!r}')
    if not one_shot and list(subset) != subset_before:
        return Result(False, key=f'C06:{tag}:subset-modified', detail=where + 'the feature subset was modified')
    xs_after = [dict(r) for r in storage.get_data()[0]]
    if xs_after != xs_before or list(storage.get_data()[1]) != ys_before:
        return Result(False, key=f'C06:{tag}:storage-modified', detail=where + f'storage content changed: {xs_before!r} -> {xs_after!r}')
    if not isinstance(preds, list) or len(preds) != n:
        return Result(False, key=f'C06:{tag}:prediction-count', detail=where + f'{len(preds) if hasattr(preds, "__len__") else preds!r} predictions for n_samples={n}')
    # the property fixes the number of returned predictions, not the number of model evaluations (identical inputs may be evaluated
    # once): between 1 and n evaluations, and every returned prediction is the model's output for one of the recorded inputs
    if not 1 <= len(calls) <= n:
        return Result(False, key=f'C06:{tag}:model-calls', detail=where + f'{len(calls)} model evaluations for n_samples={n}')
    for i, p in enumerate(preds):
        if len(calls) == n:
            ok = p == calls[i][2]
        else:
            ok = any(p == c[2] for c in calls)
        if not ok:
            return Result(False, key=f'C06:{tag}:prediction-mismatch', detail=where + f'prediction {i} is {p!r}, which is not what the model returned for the recorded input(s)')
    stored = xs_before
    stored_raw = list(storage.get_data()[0])
    for inp, _ids, out in calls:
        if set(inp) != set(x):
            return Result(False, key=f'C06:{tag}:input-keys', detail=where + f'model input has keys {list(inp)!r}, the instance has {list(x)!r}')
        if list(inp) != list(x):
            # the library's own array-based wrappers read a dict positionally when no feature names are given
            return Result(False, key=f'C06:{tag}:input-key-order', detail=where + f'model input lists its keys as {list(inp)!r}, the instance as {list(x)!r}')
        for f in names:
            if f not in sub_names and not (inp[f] == x[f]):
                return Result(False, key=f'C06:{tag}:outside-subset-changed', detail=where + f'feature {f!r} outside the subset {sub_names!r} is {inp[f]!r}, x has {x[f]!r}')
        eq = (lambda a, b: _strict(a) == _strict(b)) if rnd.get('typed') else (lambda a, b: a == b)
        if rnd.get('typed'):
            for f in names:
                if f not in sub_names and _strict(inp[f]) != _strict(x[f]):
                    return Result(False, key=f'C06:{tag}:outside-subset-changed', detail=where + f'feature {f!r} outside the subset is {inp[f]!r}, x has {x[f]!r} (equal but not the same value)')
        if tag == 'default':
            for f in sub_names:
                if inp[f] != defaults[f]:
                    return Result(False, key='C06:default:not-default', detail=where + f'feature {f!r} is {inp[f]!r}, configured default {defaults[f]!r}')
        elif tag == 'joint':
            if sub_names and not any(all(eq(inp[f], _rv(r, f)) for f in sub_names) for r in stored_raw):
                return Result(False, key='C06:joint:not-one-row', detail=where + f'imputed values { {f: inp[f] for f in sub_names}!r} do not come from ONE currently stored row of {stored!r}')
        else:
            for f in sub_names:
                if not any(eq(inp[f], _rv(r, f)) for r in stored_raw):
                    return Result(False, key='C06:product:not-a-stored-value', detail=where + f'feature {f!r} = {inp[f]!r} is no value of that feature in a currently stored observation {stored!r}')
    distinct_rows = len({tuple(sorted(map(repr, r.items()))) for r in stored})
    differs = all(any(x[f] != _rv(r, f) for f in sub_names) for r in stored_raw) if sub_names else False
    nt = 0 < len(sub_names) < d and distinct_rows >= 2 and n >= 2 and differs
    labels = [rnd['subset_type'], 'empty' if not sub_names else ('full' if len(sub_names) == d else 'proper')]
    return nt, labels


@st.composite
def cases(draw):
    d = draw(st.integers(1, 5))
    names = draw(cfgs.names_st(d))
    style = draw(st.sampled_from(['ties', 'distinct', 'distinct', 'typed']))
    n_rounds = draw(st.sampled_from([1, 1, 2, 3, 4]))
    rounds = []
    serial = 0
    for ri in range(n_rounds):
        nrows = draw(st.sampled_from([1, 2, 3, 4, 6, 9, 12])) if ri == 0 else draw(st.integers(0, 5))
        rows = []
        for _ in range(nrows):
            serial += 1
            if style == 'typed':
                rows.append([draw(typed_value) for _ in range(d)])
            else:
                rows.append([draw(st.integers(-2, 2)) for _ in range(d)] if style == 'ties' else [10 * serial + f for f in range(d)])
        if style == 'typed':
            x = [draw(typed_value) for _ in range(d)]
        else:
            x = [draw(st.integers(-2, 2)) for _ in range(d)] if style == 'ties' else [-(f + 1) for f in range(d)]
        shape = draw(st.sampled_from(['empty', 'proper', 'proper', 'proper', 'full'])) if d >= 2 else draw(st.sampled_from(['empty', 'full']))
        if shape == 'empty':
            subset = []
        elif shape == 'full':
            subset = draw(st.permutations(list(range(d))))
        else:
            size = draw(st.integers(1, d - 1))
            subset = draw(st.permutations(list(range(d))))[:size]
        n_samples = draw(st.sampled_from([1, 2, 2, 3, 4]))
        rounds.append({'rows': rows, 'x': x, 'subset': list(subset), 'subset_type': draw(st.sampled_from(SUBSET_TYPES)),
                       'n_samples': n_samples, 'positional': draw(st.booleans()),
                       'x_perm': draw(st.sampled_from([0, 0, 1, 2])), 'x_opt': draw(st.sampled_from([None, None, 5])),
                       'typed': style == 'typed',
                       # a model function that works IN PLACE on the dict it is given (e.g. a pipeline that renames keys)
                       'mutating_model': draw(st.integers(0, 5)) == 0,
                       # every fifth round: the model raises at one of its evaluations inside impute
                       'fault_at': draw(st.integers(1, n_samples)) if draw(st.integers(0, 4)) == 0 else None})
    return {
        'names': names, 'mode': 'float' if style == 'typed' else draw(st.sampled_from(['exact', 'float'])),
        'spec': draw(cfgs.model_st(d)), 'storage': draw(cfgs.storage_st()), 'rounds': rounds,
        'imputer': draw(st.sampled_from(['joint', 'product', 'default', 'joint', 'product'])),
        'defaults': [draw(st.integers(-3, 3)) for _ in range(d)], 'script': draw(gen.script),
        'defaults_container': draw(st.sampled_from(['dict', 'dict', 'defaultdict', 'missing'])),
        'vary_keys': draw(st.booleans()),      # stored observations differ in key order and some carry an optional key
        'sparse_rows': style != 'typed' and draw(st.integers(0, 3)) == 0,   # defaultdict observations that leave features out
        'window_view': draw(st.sampled_from([None, None, None, 1, 2])),     # storage is a user subclass whose get_data() exposes the last m rows only
    }


def run_wrapped(case):
    """The model function is one of the library's own array wrappers (SklearnWrapper around a predict function, built with the
    feature names) and n_samples goes up to several hundred: exactly n_samples predictions, every model input equal to x outside the
    subset and taken from stored rows (ONE row under 'joint') inside it."""
    from ixai.imputer import MarginalImputer
    from ixai.storage import BatchStorage, IntervalStorage
    from ixai.utils.wrappers import SklearnWrapper
    names = list(case['names'])
    d = len(names)
    seen_rows = []

    def predict(arr):
        arr = np.asarray(arr, dtype=float)
        arr = arr.reshape(1, -1) if arr.ndim == 1 else arr
        seen_rows.extend([float(v) for v in row] for row in arr)
        return arr.sum(axis=1)
    model = SklearnWrapper(predict, feature_names=names)
    storage = BatchStorage(store_targets=False) if case['k'] is None else IntervalStorage(size=case['k'], store_targets=False)
    rows = [{n: float(10 * (j + 1) + f) for f, n in enumerate(names)} for j in range(case['n_rows'])]
    for r in rows:
        storage.update(dict(r))
    x = {n: float(-(f + 1)) for f, n in enumerate(names)}
    sub = [names[i] for i in case['subset']]
    n = case['n_samples']
    random.seed(case['seeds'][0])
    np.random.seed(case['seeds'][1])
    imp = MarginalImputer(model, case['strategy'], storage)
    try:
        preds = imp.impute(feature_subset=list(sub), x_i=x, n_samples=n)
    except Exception as e:
        return Result(False, key=f'C06:wrapped:exception:{type(e).__name__}', detail=f'impute raised {e!r} (n_samples={n})')
    if not isinstance(preds, list) or len(preds) != n:
        return Result(False, key=f"C06:{case['strategy']}:prediction-count",
                      detail=f'{len(preds) if hasattr(preds, "__len__") else preds!r} predictions for n_samples={n} (model: SklearnWrapper)')
    stored = [[r[nm] for nm in names] for r in storage.get_data()[0]]
    if len(seen_rows) > n or not seen_rows:
        return Result(False, key='C06:wrapped:model-calls', detail=f'{len(seen_rows)} rows evaluated for n_samples={n}')
    outs = sorted(float(sum(r)) for r in seen_rows)
    for p in preds:
        if not (isinstance(p, dict) and set(p) == {'output'} and any(abs(float(p['output']) - o) <= 1e-9 for o in outs)):
            return Result(False, key='C06:wrapped:prediction-mismatch', detail=f'prediction {p!r} is not the output for one of the evaluated rows')
    for row in seen_rows:
        for i, nm in enumerate(names):
            if nm not in sub and row[i] != x[nm]:
                return Result(False, key=f"C06:{case['strategy']}:outside-subset-changed", detail=f'feature {nm!r}: {row[i]!r} instead of {x[nm]!r}')
        idx = [i for i, nm in enumerate(names) if nm in sub]
        if case['strategy'] == 'joint':
            if idx and not any(all(row[i] == s_[i] for i in idx) for s_ in stored):
                return Result(False, key='C06:joint:not-one-row', detail=f'evaluated row {row!r} does not take its subset values from ONE stored row')
        else:
            for i in idx:
                if not any(row[i] == s_[i] for s_ in stored):
                    return Result(False, key='C06:product:not-a-stored-value', detail=f'evaluated row {row!r}: value {row[i]!r} is no stored value of that feature')
    return Result(True, nontrivial=n > 256 and 0 < len(sub) < d, labels=['wrapped_model', case['strategy'], 'n>256' if n > 256 else 'n<=256'])


@st.composite
def wrapped_cases(draw):
    d = draw(st.integers(2, 4))
    names = draw(cfgs.names_st(d))
    size = draw(st.integers(1, d - 1))
    return {'names': names, 'subset': draw(st.permutations(list(range(d))))[:size], 'n_rows': draw(st.integers(2, 6)),
            'k': draw(st.sampled_from([None, 3])), 'strategy': draw(st.sampled_from(['joint', 'product'])),
            'n_samples': draw(st.sampled_from([257, 300, 513, 700, 256, 255, 2, 1])), 'seeds': [draw(gen.seed32) % 2 ** 31, draw(gen.seed32) % 2 ** 31]}


SUBS = {'impute': run_case, 'wrapped': run_wrapped}


def replay(sub, case):
    return SUBS.get(sub, run_case)(case)


def run(ctx):
    ctx.rule, ctx.assumptions = RULE, ASSUMPTIONS
    if not ctx.search('impute', cases(), run_case, ctx.n(3000, 320000)):
        return
    ctx.search('wrapped', wrapped_cases(), run_wrapped, ctx.n(60, 4000))
