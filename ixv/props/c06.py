"""C06 - imputers replace exactly the requested features with genuine background values (DESIGN 3, C06)."""
import copy

from hypothesis import strategies as st

from ..core import Result
from ..doubles import Model, num
from .. import cfgs, gen, rng
from . import c07

LEVEL = 'exploration'
RULE = ("Storage kind (Batch, Interval, Sequence, UniformReservoir, GeometricReservoir) and CONTENT produced by a generated update "
        "history of 1..12 rows (so reservoirs after replacement and the deque of IntervalStorage are covered), instance x over the same "
        "d in 1..5 feature names (str/int/float mixtures), subset as list / tuple / set / frozenset / dict-keys view (empty, proper, "
        "full), MarginalImputer joint / product or DefaultImputer, n_samples 1..4, the library's random draws SCRIPTED by Hypothesis. "
        "Oracle on the recorded model inputs: equal to x outside the subset; inside: the configured default, or a stored row r with "
        "input[f] == r[f] (product), one r for all f of that call (joint); the return value is a list of exactly n_samples predictions, "
        "each the model's output for the corresponding recorded input (DefaultImputer: the one prediction n times); empty subset -> every "
        "input equals x and there are n_samples predictions; deep snapshots of x, the subset and storage.get_data() are unchanged. "
        "Non-trivial: proper non-empty subset, >=2 distinct stored rows, n_samples>=2, x differs from every stored row on the subset; "
        "distinct by case digest.")
ASSUMPTIONS = ["one-shot iterators are not generated as subsets (no caller passes one; re-iteration is inherent in n_samples > 1)",
               "the storage is non-empty whenever MarginalImputer is asked (randrange(0) is the documented callers' precondition)"]

SUBSET_TYPES = ['list', 'tuple', 'set', 'frozenset', 'keys']


def _subset(kind, names):
    if kind == 'list':
        return list(names)
    if kind == 'tuple':
        return tuple(names)
    if kind == 'set':
        return set(names)
    if kind == 'frozenset':
        return frozenset(names)
    return {n: None for n in names}.keys()


def run_case(case):
    from ixai.imputer import MarginalImputer, DefaultImputer
    names = list(case['names'])
    d = len(names)
    mode = case['mode']
    model = Model(case['spec'], names, mode)
    scfg = dict(case['storage'], st=case['storage'].get('st', True))
    src = rng.Scripted(case['script'])
    with rng.patched_random(src):
        storage = c07.make(scfg)
        rows = []
        for r in case['rows']:
            row = {n: num(v, mode) for n, v in zip(names, r)}
            rows.append(row)
            storage.update(row, ['y', len(rows)])
        x = {n: num(v, mode) for n, v in zip(names, case['x'])}
        sub_names = [names[i] for i in case['subset']]
        subset = _subset(case['subset_type'], sub_names)
        if case['imputer'] == 'default':
            defaults = {n: num(v, mode) for n, v in zip(names, case['defaults'])}
            imp = DefaultImputer(model, dict(defaults))
        else:
            defaults = None
            imp = MarginalImputer(model, case['imputer'], storage)
        xs_before = [dict(r) for r in storage.get_data()[0]]
        ys_before = list(storage.get_data()[1])
        x_before = dict(x)
        subset_before = list(subset)
        n = case['n_samples']
        mark = len(model.calls)
        try:
            if case.get('positional'):
                preds = imp.impute(subset, x, n)
            else:
                preds = imp.impute(feature_subset=subset, x_i=x, n_samples=n)
        except Exception as e:
            return Result(False, key=f'C06:exception:{type(e).__name__}',
                          detail=f'impute raised {e!r} (subset type {case["subset_type"]}, {case["imputer"]})')
    calls = model.calls[mark:]
    tag = case['imputer']
    # nothing modified
    if x != x_before or list(x) != list(x_before):
        return Result(False, key=f'C06:{tag}:instance-modified', detail=f'x_i changed from {x_before!r} to {x!r}')
    if list(subset) != subset_before:
        return Result(False, key=f'C06:{tag}:subset-modified', detail='the feature subset was modified')
    xs_after = [dict(r) for r in storage.get_data()[0]]
    if xs_after != xs_before or list(storage.get_data()[1]) != ys_before:
        return Result(False, key=f'C06:{tag}:storage-modified', detail=f'storage content changed: {xs_before!r} -> {xs_after!r}')
    # return value
    if not isinstance(preds, list) or len(preds) != n:
        return Result(False, key=f'C06:{tag}:prediction-count', detail=f'{len(preds) if hasattr(preds, "__len__") else preds!r} predictions for n_samples={n}')
    if tag == 'default':
        if len(calls) not in (1, n):
            return Result(False, key='C06:default:model-calls', detail=f'{len(calls)} model evaluations')
    elif len(calls) != n:
        return Result(False, key=f'C06:{tag}:model-calls', detail=f'{len(calls)} model evaluations for n_samples={n}')
    for i, p in enumerate(preds):
        inp, _ids, out = calls[i if len(calls) == n else 0]
        if p != out:
            return Result(False, key=f'C06:{tag}:prediction-mismatch', detail=f'prediction {i} is {p!r} but the model returned {out!r} for its input')
    stored = xs_before
    for inp, _ids, out in calls:
        if set(inp) != set(x):
            return Result(False, key=f'C06:{tag}:input-keys', detail=f'model input has keys {list(inp)!r}')
        for f in names:
            if f not in sub_names and not (inp[f] == x[f]):
                return Result(False, key=f'C06:{tag}:outside-subset-changed', detail=f'feature {f!r} outside the subset {sub_names!r} is {inp[f]!r}, x has {x[f]!r}')
        if tag == 'default':
            for f in sub_names:
                if inp[f] != defaults[f]:
                    return Result(False, key='C06:default:not-default', detail=f'feature {f!r} is {inp[f]!r}, configured default {defaults[f]!r}')
        elif tag == 'joint':
            if sub_names and not any(all(inp[f] == r[f] for f in sub_names) for r in stored):
                return Result(False, key='C06:joint:not-one-row', detail=f'imputed values { {f: inp[f] for f in sub_names}!r} do not come from ONE stored row of {stored!r}')
        else:
            for f in sub_names:
                if not any(inp[f] == r[f] for r in stored):
                    return Result(False, key='C06:product:not-a-stored-value', detail=f'feature {f!r} = {inp[f]!r} is no stored value of that feature')
    distinct_rows = len({tuple(sorted(map(repr, r.items()))) for r in stored})
    differs = all(any(x[f] != r[f] for f in sub_names) for r in stored) if sub_names else False
    nt = 0 < len(sub_names) < d and distinct_rows >= 2 and n >= 2 and differs
    labels = [tag, case['subset_type'], case['storage']['cls'],
              'empty' if not sub_names else ('full' if len(sub_names) == d else 'proper')]
    return Result(True, nontrivial=nt, labels=labels)


@st.composite
def cases(draw):
    d = draw(st.integers(1, 5))
    names = draw(cfgs.names_st(d))
    nrows = draw(st.sampled_from([1, 2, 3, 4, 6, 9, 12]))
    style = draw(st.sampled_from(['ties', 'distinct', 'distinct']))
    if style == 'ties':
        rows = [[draw(st.integers(-2, 2)) for _ in range(d)] for _ in range(nrows)]
        x = [draw(st.integers(-2, 2)) for _ in range(d)]
    else:
        rows = [[10 * (i + 1) + f for f in range(d)] for i in range(nrows)]
        x = [-(f + 1) for f in range(d)]
    shape = draw(st.sampled_from(['empty', 'proper', 'proper', 'proper', 'full'])) if d >= 2 else draw(st.sampled_from(['empty', 'full']))
    if shape == 'empty':
        subset = []
    elif shape == 'full':
        subset = draw(st.permutations(list(range(d))))
    else:
        size = draw(st.integers(1, d - 1))
        subset = draw(st.permutations(list(range(d))))[:size]
    return {
        'names': names, 'mode': draw(st.sampled_from(['exact', 'float'])),
        'spec': draw(cfgs.model_st(d)), 'storage': draw(cfgs.storage_st()), 'rows': rows, 'x': x,
        'subset': subset, 'subset_type': draw(st.sampled_from(SUBSET_TYPES)),
        'imputer': draw(st.sampled_from(['joint', 'product', 'default', 'joint', 'product'])),
        'defaults': [draw(st.integers(-3, 3)) for _ in range(d)],
        'n_samples': draw(st.sampled_from([1, 2, 2, 3, 4])), 'positional': draw(st.booleans()), 'script': draw(gen.script),
    }


SUBS = {'impute': run_case}


def replay(sub, case):
    return run_case(case)


def run(ctx):
    ctx.rule, ctx.assumptions = RULE, ASSUMPTIONS
    ctx.search('impute', cases(), run_case, ctx.n(3000, 320000))
