"""Runner:  /venv/bin/python -m ixv.run <ID> --tier quick|thorough [--replay <file>]   (cwd /verif)

exit 0  property held on everything explored (KNOWN-FINDING lines for listed open findings re-observed)
exit 1  VIOLATION property=<id> replay=<path>   (a violation that known_findings.json does not list)
exit 2  harness error (never a violation)
"""
import argparse
import glob
import importlib
import json
import os
import sys
import time
import warnings


def _bootstrap():
    """Pin hash randomisation (set/dict order of str feature names feeds the library's draws) and make sure the
    code under test is the working tree of the repository."""
    if os.environ.get('PYTHONHASHSEED') != '0':
        env = dict(os.environ, PYTHONHASHSEED='0')
        os.execve(sys.executable, [sys.executable, '-m', 'ixv.run'] + sys.argv[1:], env)
    here = os.path.dirname(os.path.dirname(os.path.abspath(__file__)))
    if here not in sys.path:
        sys.path.insert(0, here)
    deps = os.path.join(here, '.deps')
    if os.path.isdir(deps) and deps not in sys.path:
        sys.path.append(deps)
    repo = os.environ.get('IXV_REPO', '/repo')
    sys.path.insert(0, repo)
    os.environ.setdefault('TQDM_DISABLE', '1')
    warnings.filterwarnings('ignore')
    import ixai
    if not os.path.abspath(ixai.__file__).startswith(os.path.abspath(repo) + os.sep):
        print(f"HARNESS-ERROR ixai imported from {ixai.__file__}, expected under {repo}")
        sys.exit(2)


def _worker(args):
    prop, tier, seed, shard, nshards = args
    _bootstrap_worker()
    from ixv import core
    mod = importlib.import_module(f'ixv.props.{prop.lower()}')
    ctx = core.Ctx(prop, tier, seed, shard=shard, nshards=nshards)
    err = None
    cov = _start_coverage(prop, tier, shard)
    try:
        if hasattr(mod, 'self_check') and shard == 0:
            mod.self_check()
        if shard == 0:
            _run_regress(ctx, mod, prop)
        mod.run(ctx)
    except core.HarnessError as e:
        err = f"HarnessError: {e}"
    except Exception:
        err = core.format_exc()
    finally:
        _stop_coverage(cov, prop, ctx)
    return {
        'evaluations': ctx.evaluations,
        'nontrivial': sorted(ctx.nontrivial),
        'labels': dict(ctx.labels),
        'samples': ctx.samples,
        'violations': ctx.violations,
        'known_seen': dict(ctx.known_seen),
        'extra': ctx.extra,
        'assumptions': ctx.assumptions,
        'rule': ctx.rule,
        'inconclusive': ctx.inconclusive,
        'error': err,
        'shard': shard,
    }


def _anchor_files(prop):
    here = os.path.dirname(os.path.dirname(os.path.abspath(__file__)))
    try:
        with open(os.path.join(here, 'properties.jsonl')) as f:
            for line in f:
                p = json.loads(line)
                if p['id'] == prop:
                    return list(p['anchors']['files'])
    except Exception:
        pass
    return []


def _function_body_lines(path):
    import ast
    lines = set()
    try:
        tree = ast.parse(open(path).read())
    except Exception:
        return lines
    for node in ast.walk(tree):
        if isinstance(node, (ast.FunctionDef, ast.AsyncFunctionDef)):
            for stmt in node.body:
                for sub in ast.walk(stmt):
                    if hasattr(sub, 'lineno'):
                        lines.add(sub.lineno)
    return lines


def _start_coverage(prop, tier, shard):
    """Line coverage of the property's anchor files (DESIGN 2.8), measured with the low-overhead sys.monitoring core on
    shard 0 of the quick tier (or whenever IXV_COVERAGE=1).  Purely informational: a generator that stops reaching a line shows up."""
    want = os.environ.get('IXV_COVERAGE')
    if want == '0' or shard != 0 or (tier != 'quick' and want != '1'):
        return None
    try:
        os.environ.setdefault('COVERAGE_CORE', 'sysmon')
        import coverage
        repo = os.environ.get('IXV_REPO', '/repo')
        cov = coverage.Coverage(include=[os.path.join(repo, 'ixai', '*')], branch=False, data_file=None)
        cov.start()
        return cov
    except Exception:
        return None


def _stop_coverage(cov, prop, ctx):
    if cov is None:
        return
    try:
        cov.stop()
        repo = os.environ.get('IXV_REPO', '/repo')
        out = {}
        for rel in _anchor_files(prop):
            path = os.path.join(repo, rel)
            try:
                _f, statements, _excl, missing, _fmt = cov.analysis2(path)
            except Exception:
                out[rel] = 'not imported during this run'
                continue
            body = _function_body_lines(path)      # module-level lines ran at import time, before the measurement started
            st_body = [l for l in statements if l in body]
            miss_body = [l for l in missing if l in body]
            out[rel] = {'function_body_statements': len(st_body), 'executed': len(st_body) - len(miss_body),
                        'missing_lines': miss_body[:40]}
        ctx.extra['anchor_line_coverage'] = out
    except Exception as e:  # never let instrumentation decide a check
        ctx.extra['anchor_line_coverage'] = f'unavailable: {e!r}'


def _bootstrap_worker():
    warnings.filterwarnings('ignore')
    here = os.path.dirname(os.path.dirname(os.path.abspath(__file__)))
    if here not in sys.path:
        sys.path.insert(0, here)
    deps = os.path.join(here, '.deps')
    if os.path.isdir(deps) and deps not in sys.path:
        sys.path.append(deps)
    repo = os.environ.get('IXV_REPO', '/repo')
    if sys.path[0] != repo:
        sys.path.insert(0, repo)
    os.environ.setdefault('TQDM_DISABLE', '1')


def _run_regress(ctx, mod, prop):
    from ixv import core
    for path in sorted(glob.glob(os.path.join(core.VERIF, 'regress', prop, '*.json'))):
        with open(path) as f:
            body = json.load(f)
        res = mod.replay(body['sub'], body['case'])
        ctx.record('regress:' + body['sub'], body['case'], res, sample=False)
        ctx.label('regress_inputs')
        if not res.ok:
            ctx.violation(body['sub'], res.key, res.detail, body['case'])


def _merge(parts):
    import collections
    labels = collections.Counter()
    known = collections.Counter()
    nontrivial = set()
    extra = {}
    samples = []
    viol = []
    errors = []
    for p in sorted(parts, key=lambda q: q['shard']):
        labels.update(p['labels'])
        known.update(p['known_seen'])
        nontrivial.update(p['nontrivial'])
        for k, v in p['extra'].items():
            if isinstance(v, (int, float)) and not isinstance(v, bool) and isinstance(extra.get(k), (int, float)):
                if k.startswith('max_') or k.startswith('worst_'):
                    extra[k] = max(extra[k], v)
                elif k.startswith('min_'):
                    extra[k] = min(extra[k], v)
                else:
                    extra[k] = extra[k] + v
            elif isinstance(v, list) and isinstance(extra.get(k), list):
                extra[k] = (extra[k] + v)[:40]
            elif isinstance(v, dict) and isinstance(extra.get(k), dict):
                for kk, vv in v.items():
                    if isinstance(vv, (int, float)) and isinstance(extra[k].get(kk), (int, float)) \
                            and not isinstance(vv, bool):
                        extra[k][kk] = extra[k][kk] + vv
                    else:
                        extra[k].setdefault(kk, vv)
            else:
                extra.setdefault(k, v)
        for s in p['samples']:
            if len(samples) < 5:
                samples.append(s)
        viol.extend(p['violations'])
        if p['error']:
            errors.append(f"shard {p['shard']}: {p['error']}")
    first = min(parts, key=lambda q: q['shard'])
    return {
        'evaluations': sum(p['evaluations'] for p in parts),
        'distinct_nontrivial': len(nontrivial),
        'labels': labels,
        'samples': samples,
        'violations': viol,
        'n_violations': len(viol),
        'known_seen': dict(known),
        'extra': extra,
        'assumptions': first['assumptions'],
        'rule': first['rule'],
        'inconclusive': any(p['inconclusive'] for p in parts),
        'errors': errors,
        'nshards': len(parts),
    }


def _concurrency(nshards):
    """How many shards run at the same time. The SHARDS themselves (and so every generated case) do not depend on this;
    importing the library costs ~0.7 GB per process, so the number of concurrent workers follows the memory that is there."""
    limit = None
    for p in ('/sys/fs/cgroup/memory.max', '/sys/fs/cgroup/memory/memory.limit_in_bytes'):
        try:
            v = open(p).read().strip()
            if v.isdigit() and int(v) < 1 << 60:
                limit = int(v)
                break
        except OSError:
            pass
    try:
        for line in open('/proc/meminfo'):
            if line.startswith('MemAvailable:'):
                avail = int(line.split()[1]) * 1024
                limit = avail if limit is None else min(limit, avail)
    except OSError:
        pass
    by_mem = nshards if limit is None else max(1, int((limit - (1 << 30)) // int(1.5 * (1 << 30))))
    return max(1, min(nshards, os.cpu_count() or 1, by_mem))


def _optimized_pass(prop, tier, merged):
    """The same check once more in a child interpreter started with -O (assert statements stripped), on a third of the budget
    (a tenth in the thorough tier): a library whose behaviour hangs on an `assert` doing real work breaks for users who run
    optimised byte code.  Returns the VIOLATION lines of the child ([] if none), or None on a harness error of the child."""
    import subprocess
    scale = '0.34' if tier == 'quick' else '0.1'
    env = dict(os.environ, IXV_NO_EVIDENCE='1', IXV_BUDGET=scale, PYTHONHASHSEED='0')
    env.pop('PYTHONOPTIMIZE', None)
    here = os.path.dirname(os.path.dirname(os.path.abspath(__file__)))
    p = subprocess.run([sys.executable, '-O', '-m', 'ixv.run', prop, '--tier', tier], cwd=here, env=env, capture_output=True, text=True)
    out = [l for l in p.stdout.splitlines() if l.strip()]
    summary = next((l for l in out if l.startswith(f'{prop} tier=')), '')
    info = {'interpreter': 'python -O', 'budget_scale': float(scale), 'exit': p.returncode}
    for tok in summary.split():
        if tok.startswith(('evaluations=', 'distinct_nontrivial=', 'violations=')):
            k, v = tok.split('=')
            info[k] = int(v)
    merged['extra']['optimized_interpreter_pass'] = info
    if p.returncode == 0:
        return []
    if p.returncode == 1:
        lines = []
        for i, l in enumerate(out):
            if l.startswith('VIOLATION '):
                if i and out[i - 1].startswith('  '):
                    lines.append('  [python -O] ' + out[i - 1].strip())
                lines.append(l)
        return lines or [f'VIOLATION property={prop} replay=(child run under python -O exited 1 without a replay file)']
    print("HARNESS-ERROR the pass under python -O failed\n" + "\n".join(out[-15:]) + p.stderr[-1500:])
    return None


def main():
    _bootstrap()
    ap = argparse.ArgumentParser()
    ap.add_argument('prop')
    ap.add_argument('--tier', default=os.environ.get('VERIF_TIER', 'quick'), choices=['quick', 'thorough'])
    ap.add_argument('--replay')
    ap.add_argument('--shards', type=int, default=None)
    a = ap.parse_args()
    prop = a.prop.upper()
    try:
        seed = int(os.environ.get('VERIF_SEED', '1'))
    except ValueError:
        seed = 1
    from ixv import core
    t0 = time.time()
    try:
        mod = importlib.import_module(f'ixv.props.{prop.lower()}')
    except Exception:
        print("HARNESS-ERROR cannot import property module\n" + core.format_exc())
        sys.exit(2)

    if a.replay:
        with open(a.replay) as f:
            body = json.load(f)
        if body.get('python_flags') == 'O' and not sys.flags.optimize:
            # found under `python -O` (asserts stripped): replay it the same way
            os.execve(sys.executable, [sys.executable, '-O', '-m', 'ixv.run'] + sys.argv[1:], dict(os.environ))
        try:
            res = mod.replay(body['sub'], body['case'])
        except Exception:
            print("HARNESS-ERROR replay crashed\n" + core.format_exc())
            sys.exit(2)
        if res.ok:
            print(f"replay of {a.replay}: property {prop} holds on this input")
            sys.exit(0)
        print(f"replay of {a.replay}: {res.key}: {res.detail}")
        print(f"VIOLATION property={prop} replay={a.replay}")
        sys.exit(1)

    nshards = a.shards if a.shards else (1 if a.tier == 'quick' else 16)
    nshards = getattr(mod, 'SHARDS', {}).get(a.tier, nshards)
    jobs = [(prop, a.tier, seed, i, nshards) for i in range(nshards)]
    if nshards == 1:
        parts = [_worker(jobs[0])]
    else:
        # a ProcessPoolExecutor notices a worker that died (e.g. killed for memory) instead of waiting for it forever
        import multiprocessing as mp
        from concurrent.futures import ProcessPoolExecutor
        from concurrent.futures.process import BrokenProcessPool
        try:
            with ProcessPoolExecutor(max_workers=_concurrency(nshards), mp_context=mp.get_context('spawn'),
                                     max_tasks_per_child=1) as pool:
                parts = list(pool.map(_worker, jobs, chunksize=1))
        except BrokenProcessPool as e:
            print(f"HARNESS-ERROR a worker process of the {a.tier} tier died abruptly ({e}); nothing is concluded from this run")
            sys.exit(2)
    merged = _merge(parts)
    if merged['errors']:
        print("HARNESS-ERROR\n" + "\n".join(merged['errors']))
        sys.exit(2)
    opt_lines = []
    if not sys.flags.optimize and not merged['violations'] and os.environ.get('IXV_OPT_PASS', '1') != '0':
        opt_lines = _optimized_pass(prop, a.tier, merged)
        if opt_lines is None:
            sys.exit(2)
    wall = time.time() - t0
    level = getattr(mod, 'LEVEL', 'exploration')
    try:
        path = core.write_evidence(prop, a.tier, seed, level, merged, wall, strict=not merged['violations'])
    except core.HarnessError as e:
        print(f"HARNESS-ERROR {e}")
        sys.exit(2)
    known = core.load_known()
    for key, n in sorted(merged['known_seen'].items()):
        what = next((f.get('what', '') for f in known if f.get('key') == key), '')
        print(f"KNOWN-FINDING: property={prop} {key} ({n} occurrences this run) {what}")
    print(f"{prop} tier={a.tier} seed={seed} evaluations={merged['evaluations']} "
          f"distinct_nontrivial={merged['distinct_nontrivial']} violations={merged['n_violations']} "
          f"wall={wall:.1f}s evidence={path}")
    if opt_lines:
        for line in opt_lines:
            print(line)
        sys.exit(1)
    if merged['violations']:
        seen = set()
        for v in merged['violations']:
            if v['key'] in seen:
                continue
            seen.add(v['key'])
            rp = core.save_replay(prop, v)
            print(f"  {v['sub']}: {v['key']}: {str(v['detail'])[:600]}")
            print(f"VIOLATION property={prop} replay={rp}")
        sys.exit(1)
    sys.exit(0)


if __name__ == '__main__':
    main()
