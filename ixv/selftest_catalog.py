"""Mutants (must be detected) and equivalent refactors (must not alarm) for ixv.selftest."""

# (property, name, kind, [(file, old, new), ...])   kind: 'mutant' | 'equivalent'
CATALOG = []


def M(prop, name, *edits, kind='mutant'):
    CATALOG.append((prop, name, kind, list(edits)))


W = 'ixai/utils/tracker/welford.py'
ES = 'ixai/utils/tracker/exponential_smoothing.py'

# ---- C10 ---------------------------------------------------------------------------------------
M('C10', 'welford-second-diff-old-mean', (W, "difference_2 = value_i - self.tracked_value", "difference_2 = difference_1"))
M('C10', 'welford-sample-variance', (W, "return self.sum_squares / max(self.N, 1)", "return self.sum_squares / max(self.N - 1, 1)"))
M('C10', 'es-swapped-weights', (ES, "(1 - self.alpha) * self.tracked_value + self.alpha * value_i",
                                "self.alpha * self.tracked_value + (1 - self.alpha) * value_i"))
M('C10', 'es-N-not-incremented', (ES, "        self.N += 1\n", "        pass\n"))
M('C10', 'welford-abs-only', (W, "self.sum_squares += difference_1 * difference_2", "self.sum_squares += abs(difference_1) * abs(difference_2) if value_i >= 0 else difference_1 * difference_1"))
M('C10', 'es-incremental-form', (ES, "self.tracked_value = (1 - self.alpha) * self.tracked_value + self.alpha * value_i",
                                 "self.tracked_value = self.tracked_value + self.alpha * (value_i - self.tracked_value)"), kind='equivalent')
M('C10', 'welford-alt-update', (W, "self.sum_squares += difference_1 * difference_2",
                                "self.sum_squares += difference_1 * difference_1 * (self.N - 1) / self.N"), kind='equivalent')



# ---- C11 ---------------------------------------------------------------------------------------
SW = 'ixai/utils/tracker/sliding_window.py'
M('C11', 'revert-fix-npnan', (SW, "np.nan for _ in range", "np.NaN for _ in range"))
M('C11', 'revert-fix-wrap', (SW, "            self.sliding_window[self.window_k] = value_i\n            self.window_k += 1\n        return self",
                             "            self.sliding_window[self.window_k] = value_i\n        return self"))
M('C11', 'plain-mean-over-nan', (SW, "float(np.nanmean(self.sliding_window, axis=0))", "float(np.mean(self.sliding_window, axis=0))"))
M('C11', 'sample-variance', (SW, "float(np.nanvar(self.sliding_window, axis=0))", "float(np.nanvar(self.sliding_window, axis=0, ddof=0 if self.window_k < 2 else 1))"))
M('C11', 'modular-index-refactor', (SW, """        if self.window_k < self.k:
            self.sliding_window[self.window_k] = value_i
            self.window_k += 1
        else:
            self.window_k = 0
            self.sliding_window[self.window_k] = value_i
            self.window_k += 1
""", """        self.sliding_window[self.window_k % self.k] = value_i
        self.window_k = self.window_k % self.k + 1
"""), kind='equivalent')

# ---- C07 ---------------------------------------------------------------------------------------
GEO = 'ixai/storage/geometric_reservoir_storage.py'
UNI = 'ixai/storage/uniform_reservoir_storage.py'
INT = 'ixai/storage/interval_storage.py'
BAT = 'ixai/storage/batch_storage.py'
M('C07', 'geo-target-other-slot', (GEO, "self._storage_y[rand_idx] = y", "self._storage_y[(rand_idx + 1) % self.size] = y"))
M('C07', 'uni-target-other-slot', (UNI, "self._storage_y[rand_idx] = y", "self._storage_y[random.randrange(self.size)] = y"))
M('C07', 'interval-popleft-x-only', (INT, "                self._storage_y.popleft()\n", ""))
M('C07', 'uniform-capacity-plus-one', (UNI, "if self.stored_samples <= self.size:", "if self.stored_samples <= self.size + 1:"))
M('C07', 'geo-duplicate-arrival', (GEO, "self._storage_x[rand_idx] = x", "self._storage_x[rand_idx] = x\n                self._storage_x[0] = x"))
M('C07', 'batch-keeps-targets', (BAT, "if self.store_targets:", "if True:"))
M('C07', 'interval-window-off-by-one', (INT, "if len(self._storage_x) < self.size:", "if len(self._storage_x) <= self.size:"))
M('C07', 'geo-stores-copy', (GEO, "self._storage_x[rand_idx] = x", "self._storage_x[rand_idx] = dict(x)"), kind='equivalent')
M('C07', 'geo-fill-phase-stale-target', (GEO, "            self._storage_x.append(x)\n            if self.store_targets:\n                self._storage_y.append(y)",
                                       "            self._storage_x.append(x)\n            if self.store_targets:\n                self._storage_y.insert(0, y)"))

# ---- C12 ---------------------------------------------------------------------------------------
MV = 'ixai/utils/tracker/multi_value.py'
M('C12', 'revert-fix-zero-sum', (MV, """        value_sum = sum(tracked_values.values())
        if value_sum == 0:  # NumPy scalars do not raise ZeroDivisionError but yield inf / NaN
            return {key: 0. for key in tracked_values.keys()}
        tracked_values = {key: value / value_sum for key, value in tracked_values.items()}
""", """        try:
            tracked_values = {key: value / sum(tracked_values.values()) for key, value in tracked_values.items()}
        except ZeroDivisionError:
            tracked_values = {key: 0. for key in tracked_values.keys()}
"""))
M('C12', 'no-zero-fill', (MV, "            self.tracked_value[key].update(0)  # is zero the right value to add?", "            pass"))
M('C12', 'shared-base-tracker', (MV, "                self.tracked_value[key] = copy.deepcopy(self._base_tracker)", "                self.tracked_value[key] = copy.copy(self._base_tracker) if self.N % 2 else self._base_tracker"))
M('C12', 'normalise-by-abs-sum', (MV, "value_sum = sum(tracked_values.values())", "value_sum = sum(abs(v) for v in tracked_values.values())"))
M('C12', 'N-counts-keys', (MV, "        self.N += 1\n        return self", "        self.N += max(len(values), 1)\n        return self"))
M('C12', 'single-key-normalised', (MV, "if len(self._tracked_keys) <= 1:", "if len(self._tracked_keys) < 1:"))
M('C12', 'zero-fill-only-once-seen-twice', (MV, "for key in self._tracked_keys - keys_in_update:", "for key in (self._tracked_keys - keys_in_update if self.N > 1 else ()):"))

# ---- C01 / C03 ---------------------------------------------------------------------------------
INC = 'ixai/explainer/sage/incremental.py'
EB = 'ixai/explainer/base.py'
M('C01', 'drop-carry-over', (INC, "                sample_loss = feature_loss\n", ""))
M('C01', 'marginal-tracker-fed-model-loss', (INC, "self._marginal_loss_tracker.update(marginal_loss)", "self._marginal_loss_tracker.update(model_loss)"))
M('C01', 'offset-one-sided', (INC, "return self._model_loss_tracker.get() + self._loss_direction", "return self._model_loss_tracker.get()"))
M('C01', 'importance-tracker-other-alpha', (EB, "self._importance_trackers: MultiValueTracker = MultiValueTracker(copy.deepcopy(base_tracker))",
   "self._importance_trackers: MultiValueTracker = MultiValueTracker(ExponentialSmoothingTracker(alpha=self._smoothing_alpha / 2) if dynamic_setting else copy.deepcopy(base_tracker))"))
M('C01', 'impute-coalition-not-complement', (INC, "feature_subset=features_not_in_s,", "feature_subset=set(self.feature_names) - features_not_in_s,"))
M('C01', 'float-coercion-of-losses', (INC, "model_loss = self._loss_function(y_i, y_i_pred)", "model_loss = float(self._loss_function(y_i, y_i_pred))"), kind='equivalent')
M('C03', 'float-coercion-of-losses', (INC, "model_loss = self._loss_function(y_i, y_i_pred)", "model_loss = float(self._loss_function(y_i, y_i_pred))"), kind='equivalent')
M('C03', 'credit-rotated', (INC, "            self._importance_trackers.update(marginal_contributions)",
   "            _v = list(marginal_contributions.values())\n            marginal_contributions = dict(zip(marginal_contributions.keys(), _v[1:] + _v[:1]))\n            self._importance_trackers.update(marginal_contributions)"))
M('C03', 'impute-coalition-not-complement', (INC, "feature_subset=features_not_in_s,", "feature_subset=set(self.feature_names) - features_not_in_s,"))
M('C03', 'mean-of-losses', (INC, "                feature_loss = self._loss_function(y_i, y)", "                feature_loss = sum(self._loss_function(y_i, p) for p in predictions) / len(predictions)"))
M('C03', 'unnormalised-marginal-prediction', (INC, "marginal_prediction = marginal_prediction_tracker.get_normalized()", "marginal_prediction = marginal_prediction_tracker.get()"))
M('C03', 'stale-variance', (INC, """            self._importance_trackers.update(marginal_contributions)
            variances = {
                feature: (marginal_contributions[feature] - self.importance_values[feature])**2
                for feature in self.feature_names
            }
""", """            variances = {
                feature: (marginal_contributions[feature] - self.importance_values.get(feature, 0))**2
                for feature in self.feature_names
            }
            self._importance_trackers.update(marginal_contributions)
"""))
M('C03', 'missing-label-skipped', (EB, "sum([output.get(label, 0) for output in model_outputs]) / len(model_outputs)",
   "sum([output[label] for output in model_outputs if label in output]) / len([o for o in model_outputs if label in o])"))
M('C03', 'offset-one-sided', (INC, "return self._model_loss_tracker.get() + self._loss_direction", "return self._model_loss_tracker.get()"))
M('C03', 'permutation-via-shuffle', (INC, """            permutation_chain = [self.feature_names[index] for index in
                                 np.random.permutation(len(self.feature_names))]""",
   """            permutation_chain = list(self.feature_names)
            np.random.shuffle(permutation_chain)"""), kind='equivalent')
M('C03', 'revert-fix-mixed-names', (INC, """            permutation_chain = [self.feature_names[index] for index in
                                 np.random.permutation(len(self.feature_names))]""",
   """            permutation_chain = np.random.permutation(self.feature_names)"""))

# ---- C02 ---------------------------------------------------------------------------------------
PFI = 'ixai/explainer/pfi.py'
M('C02', 'sign-flip', (PFI, "pfi[feature] = avg_loss - original_loss", "pfi[feature] = original_loss - avg_loss"))
M('C02', 'mean-to-sum', (PFI, "avg_loss = np.mean(losses)", "avg_loss = np.sum(losses)"))
M('C02', 'mean-to-median', (PFI, "avg_loss = np.mean(losses)", "avg_loss = sorted(losses)[len(losses) // 2]"))
M('C02', 'first-sample-guard-late', (PFI, "if self.seen_samples >= 1:", "if self.seen_samples >= 2:"))
M('C02', 'variance-from-pre-update', (PFI, """            self._importance_trackers.update(pfi)
            variances = {feature: (pfi[feature] - self.importance_values[feature]) ** 2
                         for feature in self.feature_names}
""", """            variances = {feature: (pfi[feature] - self.importance_values.get(feature, 0)) ** 2
                         for feature in self.feature_names}
            self._importance_trackers.update(pfi)
"""))
M('C02', 'n-inner-override-ignored', (PFI, "            if n_inner_samples is None:\n                n_inner_samples = self.n_inner_samples", "            n_inner_samples = self.n_inner_samples"))
M('C02', 'two-feature-subsets', (PFI, "feature_subset = [feature]", "feature_subset = [feature, self.feature_names[0]] if feature != self.feature_names[0] and self.seen_samples % 5 == 4 else [feature]"))
M('C02', 'wrong-smoothing-weight', (ES, "(1 - self.alpha) * self.tracked_value + self.alpha * value_i", "(1 - self.alpha) * self.tracked_value + self.alpha * value_i * (1 if self.N else 2)"))
M('C02', 'python-mean', (PFI, "avg_loss = np.mean(losses)", "avg_loss = sum(losses) / len(losses)"), kind='equivalent')

# ---- C15 ---------------------------------------------------------------------------------------
BATCH = 'ixai/explainer/sage/batch.py'
MARG = 'ixai/imputer/marginal_imputer.py'
M('C15', 'revert-fix-default-alpha', (EB, "assert 0. < self._smoothing_alpha <= 1., f", "assert 0. < smoothing_alpha <= 1., f"))
M('C15', 'revert-fix-keyword-loss', (BATCH, "            loss_previous = self._loss_function(y_i, marginal_prediction)\n            features_not_in_s",
                                     "            loss_previous = self._loss_function(y_true=y_i, y_prediction=marginal_prediction)\n            features_not_in_s"))
M('C15', 'revert-fix-mixed-names-batch', (BATCH, """            permutation_chain = [self.feature_names[index] for index in
                                 np.random.permutation(len(self.feature_names))]
            loss_previous = self._loss_function(y_i, marginal_prediction)
            features_not_in_s""", """            permutation_chain = np.random.permutation(self.feature_names)
            loss_previous = self._loss_function(y_i, marginal_prediction)
            features_not_in_s"""))
M('C15', 'revert-fix-mixed-names-incremental', (INC, """            permutation_chain = [self.feature_names[index] for index in
                                 np.random.permutation(len(self.feature_names))]""",
   """            permutation_chain = np.random.permutation(self.feature_names)"""))
M('C15', 'pfi-storage-before-explanation', (PFI, "        if self.seen_samples >= 1:\n            if n_inner_samples is None:",
   "        if update_storage:\n            self._storage.update(x_i, y_i)\n            update_storage = False\n        if self.seen_samples >= 1:\n            if n_inner_samples is None:"))
M('C15', 'sage-extra-model-evaluation', (INC, "            model_loss = self._loss_function(y_i, y_i_pred)", "            model_loss = self._loss_function(y_i, self._model_function(x_i))"))
M('C15', 'imputer-updates-x-in-place', (MARG, "            prediction = self.model_function({**x_i, **sampled_values})",
   "            _old = dict(x_i)\n            x_i.update(sampled_values)\n            prediction = self.model_function(x_i)\n            if len(sampled_values) < 2:\n                x_i.update(_old)"))
M('C15', 'sage-update-flag-ignored-on-first', (INC, "        if update_storage:\n            self._storage.update(x_i, y_i)\n",
   "        if update_storage or self.seen_samples == 3:\n            self._storage.update(x_i, y_i)\n"))
M('C15', 'names-sorted-in-ctor', (EB, "        self.feature_names = feature_names\n        self.number_of_features", "        self.feature_names = feature_names\n        if len({type(n) for n in feature_names}) == 1:\n            feature_names.sort()\n        self.number_of_features"))
M('C15', 'return-copy', (PFI, "        return self.importance_values\n", "        return dict(self.importance_values)\n"), kind='equivalent')

# ---- C16 ---------------------------------------------------------------------------------------
M('C16', 'revert-fix-zero-normaliser', (EB, """        if factor == 0:  # NumPy scalars do not raise ZeroDivisionError but yield inf / NaN
            return {feature: 0.0 for feature, importance_value in importance_values.items()}
        return {feature: importance_value / factor for feature, importance_value in importance_values.items()}
""", """        try:
            return {feature: importance_value / factor for feature, importance_value in importance_values.items()}
        except ZeroDivisionError:
            return {feature: 0.0 for feature, importance_value in importance_values.items()}
"""))
M('C16', 'normalise-by-abs-sum', (EB, "            factor = sum(importance_values_list)", "            factor = sum(abs(v) for v in importance_values_list)"))
M('C16', 'delta-uses-max-only', (EB, "factor = max(importance_values_list) - min(importance_values_list)", "factor = max(importance_values_list) - min(min(importance_values_list), 0)"))
M('C16', 'bound-missing-sqrt', (EB, "(1 / math.sqrt(delta)) * math.sqrt(self.variances[feature_name]) *", "(1 / math.sqrt(delta)) * self.variances[feature_name] *"))
M('C16', 'bound-delta-not-rooted', (EB, "(1 / math.sqrt(delta)) * math.sqrt(self.variances[feature_name]) *", "(1 / delta) * math.sqrt(self.variances[feature_name]) *"))
M('C16', 'bound-uses-wrong-alpha-term', (EB, "math.sqrt(self._smoothing_alpha / (2 - self._smoothing_alpha))", "math.sqrt(self._smoothing_alpha / (1 - self._smoothing_alpha / 2))"))
M('C16', 'signed-variance', (INC, "feature: (marginal_contributions[feature] - self.importance_values[feature])**2", "feature: (marginal_contributions[feature] - self.importance_values[feature]) * abs(marginal_contributions[feature] - self.importance_values[feature])"))
M('C16', 'bound-t-off-by-one', (EB, "(1 - self._smoothing_alpha) ** self.seen_samples +", "(1 - self._smoothing_alpha) ** (self.seen_samples - 1) +"))

# ---- C06 ---------------------------------------------------------------------------------------
DEFI = 'ixai/imputer/default_imputer.py'
M('C06', 'merge-wrong-order', (MARG, "prediction = self.model_function({**x_i, **sampled_values})", "prediction = self.model_function({**sampled_values, **x_i})"))
M('C06', 'joint-mixes-rows', (MARG, """        sampled_features = {feature_name: sampled_instance[feature_name]
                            for feature_name in feature_subset}
        return sampled_features

    @staticmethod
    def _sample_product""", """        sampled_features = {feature_name: features[random.randrange(len(features))][feature_name]
                            for feature_name in feature_subset}
        return sampled_features

    @staticmethod
    def _sample_product"""))
M('C06', 'one-prediction-short', (MARG, "for _ in range(n_samples):", "for _ in range(max(n_samples - 1, 1)):"))
M('C06', 'x-updated-in-place', (MARG, "prediction = self.model_function({**x_i, **sampled_values})", "x_i.update(sampled_values)\n            prediction = self.model_function(x_i)"))
M('C06', 'pop-from-stored-row', (MARG, """        sampled_instance = features[rand_idx].copy()
        sampled_features = {feature_name: sampled_instance[feature_name]""", """        sampled_instance = features[rand_idx]
        sampled_features = {feature_name: sampled_instance.pop(feature_name)"""))
M('C06', 'empty-subset-no-prediction', (MARG, "        predictions = []\n        for _ in range(n_samples):", "        predictions = []\n        if len(feature_subset) == 0:\n            return [self.model_function(x_i)]\n        for _ in range(n_samples):"))
M('C06', 'default-one-short', (DEFI, "prediction = [prediction for _ in range(n_samples)]", "prediction = [prediction for _ in range(1, n_samples)] or [prediction]"))
M('C06', 'default-extra-feature', (DEFI, "sampled_values = {feature: self.values[feature] for feature in feature_subset}", "sampled_values = {feature: self.values[feature] for feature in (feature_subset if len(feature_subset) != 2 else self.values)}"))
M('C06', 'product-off-by-one-row', (MARG, "            sampled_features[feature_name] = features[\n                            rand_idx].copy()[feature_name]", "            sampled_features[feature_name] = features[\n                            rand_idx].copy()[feature_name] + (1 if rand_idx == 3 else 0)"))
M('C06', 'deepcopy-values', (MARG, "sampled_instance = features[rand_idx].copy()", "import copy as _c\n        sampled_instance = _c.deepcopy(features[rand_idx])"), kind='equivalent')

# ---- C05 ---------------------------------------------------------------------------------------
ITV = 'ixai/explainer/sage/interval.py'
M('C05', 'wrong-divisor-many', (BATCH, """                loss_previous = feature_loss
            n_data = n
        self.importance_values = {feature: sage_value / n_data
                                  for feature, sage_value in sage_values.items()}
        return self.importance_values

    def explain_many_original(""", """                loss_previous = feature_loss
            n_data = n
        self.importance_values = {feature: sage_value / max(n_data - 1, 1)
                                  for feature, sage_value in sage_values.items()}
        return self.importance_values

    def explain_many_original("""))
M('C05', 'first-prediction-baseline', (BATCH, """        marginal_prediction = _get_mean_model_output(all_predictions)
        for n, (x_i, y_i) in tqdm(enumerate(zip(x_data, y_data), start=1), total=n_data,
                                  disable=not verbose):
            permutation_chain = [self.feature_names[index] for index in
                                 np.random.permutation(len(self.feature_names))]
            loss_previous = self._loss_function(y_i, marginal_prediction)
            features_not_in_s""", """        marginal_prediction = all_predictions[0]
        for n, (x_i, y_i) in tqdm(enumerate(zip(x_data, y_data), start=1), total=n_data,
                                  disable=not verbose):
            permutation_chain = [self.feature_names[index] for index in
                                 np.random.permutation(len(self.feature_names))]
            loss_previous = self._loss_function(y_i, marginal_prediction)
            features_not_in_s"""))
M('C05', 'modulo-off-by-one', (ITV, "self.seen_samples % self.interval_length != 0", "(self.seen_samples + 1) % self.interval_length != 0"))
M('C05', 'window-one-too-long', (ITV, "storage = IntervalStorage(store_targets=True, size=storage_length)", "storage = IntervalStorage(store_targets=True, size=storage_length + 1)"))
M('C05', 'model-evaluated-on-skip', (ITV, "            return self.importance_values\n        x_data", "            self._model_function(x_i)\n            return self.importance_values\n        x_data"))
M('C05', 'skip-returns-zeros', (ITV, "            return self.importance_values\n        x_data", "            return {f: 0. for f in self.importance_values}\n        x_data"))
M('C05', 'original-credit-shifted', (BATCH, "                x_s[feature] = x_i[feature]\n                predictions = []", "                x_s[feature] = x_i[feature]\n                feature = permutation_chain[0] if n % 3 == 0 else feature\n                predictions = []"))
M('C05', 'force-changes-rhythm', (ITV, "        self.seen_samples += 1\n        if not force_explain", "        self.seen_samples += 1\n        if force_explain:\n            self.seen_samples = 0\n        if not force_explain"))
M('C05', 'storage-returns-lists', ('ixai/storage/interval_storage.py', "        return self._storage_x, self._storage_y\n        #return list", "        return list(self._storage_x), list(self._storage_y)\n        #return list"), kind='equivalent')

# ---- C17 ---------------------------------------------------------------------------------------
M('C17', 'sage-early-model-loss-commit', (INC, "            model_loss = self._loss_function(y_i, y_i_pred)\n", "            model_loss = self._loss_function(y_i, y_i_pred)\n            self._model_loss_tracker.update(model_loss)\n"),
  (INC, "        if marginal_contributions is not None:\n            self._model_loss_tracker.update(model_loss)\n", "        if marginal_contributions is not None:\n"))
M('C17', 'sage-marginal-prediction-in-place', (INC, "            marginal_prediction_tracker = copy.deepcopy(self._marginal_prediction_tracker)", "            marginal_prediction_tracker = self._marginal_prediction_tracker"))
M('C17', 'sage-storage-after-commit', (INC, "        if update_storage:\n            self._storage.update(x_i, y_i)\n", ""),
  (INC, "        self.seen_samples += 1\n        return self.importance_values", "        self.seen_samples += 1\n        if update_storage:\n            self._storage.update(x_i, y_i)\n        return self.importance_values"))
M('C17', 'pfi-storage-after-commit', (PFI, "        if update_storage:\n            self._storage.update(x_i, y_i)\n", ""),
  (PFI, "        self.seen_samples += 1\n        return self.importance_values", "        self.seen_samples += 1\n        if update_storage:\n            self._storage.update(x_i, y_i)\n        return self.importance_values"))
M('C17', 'sage-marginal-attr-early', (INC, "            marginal_loss = self._loss_function(y_i, marginal_prediction)", "            self.marginal_prediction = marginal_prediction\n            marginal_loss = self._loss_function(y_i, marginal_prediction)"))
M('C17', 'batch-incremental-assignment', (BATCH, "                sage_values[feature] += marginal_contribution\n                loss_previous = feature_loss\n            n_data = n\n        self.importance_values = {feature: sage_value / n_data\n                                  for feature, sage_value in sage_values.items()}\n        return self.importance_values\n\n    def explain_many_original(",
   "                sage_values[feature] += marginal_contribution\n                loss_previous = feature_loss\n            n_data = n\n            self.importance_values = {feature: sage_value / n_data\n                                      for feature, sage_value in sage_values.items()}\n        return self.importance_values\n\n    def explain_many_original("))
M('C17', 'pfi-swallows-storage-error', (PFI, "        if update_storage:\n            self._storage.update(x_i, y_i)\n", "        if update_storage:\n            try:\n                self._storage.update(x_i, y_i)\n            except Exception:\n                pass\n"))
M('C17', 'sage-importance-commit-per-feature', (INC, "                marginal_contributions[feature] = marginal_contribution\n", "                marginal_contributions[feature] = marginal_contribution\n                if len(marginal_contributions) == len(self.feature_names):\n                    self._importance_trackers.update(marginal_contributions)\n"),
  (INC, "            self._importance_trackers.update(marginal_contributions)\n            variances", "            variances"))

# ---- C08 ---------------------------------------------------------------------------------------
M('C08', 'revert-fix-stale-weight', (UNI, """                rand_idx = random.randrange(self.size)
                self._storage_x[rand_idx] = x
                if self.store_targets:
                    self._storage_y[rand_idx] = y
                # Algorithm L: W shrinks first, the next skip is drawn from the updated W
                self._algo_wt *= np.exp(np.log(random.random()) / self.size)
                self._algo_l_counter += (np.floor(
                    np.log(random.random()) / np.log(1 - self._algo_wt)) + 1)
""", """                self._algo_l_counter += (np.floor(
                    np.log(random.random()) / np.log(1 - self._algo_wt)) + 1)
                rand_idx = random.randrange(self.size)
                self._storage_x[rand_idx] = x
                if self.store_targets:
                    self._storage_y[rand_idx] = y
                self._algo_wt *= np.exp(np.log(random.random()) / self.size)
"""))
M('C08', 'skip-missing-plus-one', (UNI, "                    np.log(random.random()) / np.log(1 - self._algo_wt)) + 1)\n", "                    np.log(random.random()) / np.log(1 - self._algo_wt)) + (1 if self.stored_samples % 2 else 2))\n"))
M('C08', 'weight-exponent-k-plus-one', (UNI, "self._algo_wt *= np.exp(np.log(random.random()) / self.size)", "self._algo_wt *= np.exp(np.log(random.random()) / (self.size + 1))"))
M('C08', 'slot-range-short', (UNI, "rand_idx = random.randrange(self.size)", "rand_idx = random.randrange(max(self.size - 1, 1))"))
M('C08', 'initial-weight-not-rooted', (UNI, "self._algo_wt = np.exp(np.log(random.random()) / self.size)", "self._algo_wt = random.random()"))
M('C08', 'algorithm-R', (UNI, """            if self._algo_l_counter == self.stored_samples:
                rand_idx = random.randrange(self.size)
                self._storage_x[rand_idx] = x
                if self.store_targets:
                    self._storage_y[rand_idx] = y
                # Algorithm L: W shrinks first, the next skip is drawn from the updated W
                self._algo_wt *= np.exp(np.log(random.random()) / self.size)
                self._algo_l_counter += (np.floor(
                    np.log(random.random()) / np.log(1 - self._algo_wt)) + 1)
""", """            rand_idx = random.randrange(self.stored_samples)
            if rand_idx < self.size:
                self._storage_x[rand_idx] = x
                if self.store_targets:
                    self._storage_y[rand_idx] = y
"""), kind='equivalent')

# ---- C09 ---------------------------------------------------------------------------------------
M('C09', 'accept-with-one-minus-p', (GEO, "if random_float <= self.constant_probability:", "if random_float <= 1 - self.constant_probability:"))
M('C09', 'accept-with-p-over-k', (GEO, "if random_float <= self.constant_probability:", "if random_float <= self.constant_probability / self.size:"))
M('C09', 'slot-range-short', (GEO, "rand_idx = random.randrange(self.size)", "rand_idx = random.randrange(max(self.size - 1, 1))"))
M('C09', 'default-p-wrong', (GEO, "self.constant_probability = 1 / self.size", "self.constant_probability = 1 / (self.size + 1)"))
M('C09', 'p1-misses-extreme', (GEO, "if random_float <= self.constant_probability:", "if random_float < self.constant_probability - 1e-16:"))
M('C09', 'first-arrival-after-fill-always-enters', (GEO, "            random_float = random.random()\n", "            random_float = random.random()\n            if not hasattr(self, '_entered_once'):\n                self._entered_once = True\n                random_float = 0.0\n"))
M('C09', 'strict-comparison', (GEO, "if random_float <= self.constant_probability:", "if random_float < self.constant_probability:"), kind='equivalent')

# ---- C04 ---------------------------------------------------------------------------------------
M('C04', 'joint-omits-last-row', (MARG, "        rand_idx = random.randrange(len(features))\n        sampled_instance", "        rand_idx = random.randrange(max(len(features) - 1, 1))\n        sampled_instance"))
M('C04', 'product-omits-last-row', (MARG, "            rand_idx = random.randrange(len(features))\n            sampled_features[feature_name]", "            rand_idx = random.randrange(max(len(features) - 1, 1))\n            sampled_features[feature_name]"))
M('C04', 'revert-fix-original-prefix', (BATCH, "                sage_values[feature] += marginal_contribution\n                loss_previous = feature_loss\n        self.importance_values",
   "                sage_values[feature] += marginal_contribution\n                loss_previous = feature_loss\n            n_data = n\n        self.importance_values"))
M('C04', 'incremental-fixed-order', (INC, """            permutation_chain = [self.feature_names[index] for index in
                                 np.random.permutation(len(self.feature_names))]""", """            permutation_chain = list(self.feature_names)"""))
M('C04', 'incremental-last-feature-always-last', (INC, """            permutation_chain = [self.feature_names[index] for index in
                                 np.random.permutation(len(self.feature_names))]""", """            permutation_chain = [self.feature_names[index] for index in
                                 np.random.permutation(len(self.feature_names) - 1)] + [self.feature_names[-1]]"""))
M('C04', 'product-reuses-row', (MARG, """        for feature_name in feature_subset:
            rand_idx = random.randrange(len(features))
""", """        rand_idx = random.randrange(len(features))
        for feature_name in feature_subset:
"""))
M('C04', 'biased-order-by-random-keys', (INC, """            permutation_chain = [self.feature_names[index] for index in
                                 np.random.permutation(len(self.feature_names))]""", """            import random as _r
            permutation_chain = sorted(self.feature_names, key=lambda _n: _r.randrange(2))"""))
M('C04', 'batch-many-fixed-order', (BATCH, """            permutation_chain = [self.feature_names[index] for index in
                                 np.random.permutation(len(self.feature_names))]
            loss_previous = self._loss_function(y_i, marginal_prediction)
            features_not_in_s""", """            permutation_chain = list(self.feature_names)
            loss_previous = self._loss_function(y_i, marginal_prediction)
            features_not_in_s"""))
M('C04', 'original-excludes-own-row', (BATCH, "x_marginal = x_data[random.randint(0, n_data - 1)]", "x_marginal = x_data[(n - 1 + random.randint(1, max(n_data - 1, 1))) % n_data]"))
M('C04', 'inner-samples-share-row', (MARG, """        predictions = []
        for _ in range(n_samples):
            sampled_values = self._sample(self.storage_object, feature_subset)
""", """        predictions = []
        sampled_values = None
        for _ in range(n_samples):
            sampled_values = sampled_values or self._sample(self.storage_object, feature_subset)
"""))
M('C04', 'python-shuffle', (INC, """            permutation_chain = [self.feature_names[index] for index in
                                 np.random.permutation(len(self.feature_names))]""", """            import random as _r
            permutation_chain = list(self.feature_names)
            _r.shuffle(permutation_chain)"""), kind='equivalent')
M('C04', 'numpy-shuffle', (INC, """            permutation_chain = [self.feature_names[index] for index in
                                 np.random.permutation(len(self.feature_names))]""", """            permutation_chain = list(self.feature_names)
            np.random.shuffle(permutation_chain)"""), kind='equivalent')

# ---- C13 ---------------------------------------------------------------------------------------
RIV = 'ixai/utils/wrappers/river.py'
VLOSS = 'ixai/utils/validators/loss.py'
M('C13', 'missing-revert', (RIV, "        self._river_metric.revert(y_true=y_true, y_pred=y_prediction)\n", ""))
M('C13', 'revert-other-arguments', (RIV, "self._river_metric.revert(y_true=y_true, y_pred=y_prediction)", "self._river_metric.revert(y_true=y_true, y_pred=y_true)"))
M('C13', 'no-sign-flip', (RIV, "            self._sign = -1.", "            self._sign = 1."))
M('C13', 'inverted-sign-flip', (RIV, 'if hasattr(self._river_metric, "bigger_is_better") and self._river_metric.bigger_is_better:', 'if hasattr(self._river_metric, "bigger_is_better") and not self._river_metric.bigger_is_better:'))
M('C13', 'validator-probe-not-reverted', (VLOSS, "        _ = river_metric.revert(y_true=0, y_pred=0)\n", ""))
M('C13', 'last-value-instead-of-output', (RIV, "y_prediction = y_prediction.get('output', 0)", "y_prediction = list(y_prediction.values())[-1]"))
M('C13', 'revert-every-second-call', (RIV, "        self._river_metric.revert(y_true=y_true, y_pred=y_prediction)\n", "        self._n = getattr(self, '_n', 0) + 1\n        if self._n % 7:\n            self._river_metric.revert(y_true=y_true, y_pred=y_prediction)\n"))
M('C13', 'reads-value-after-revert', (RIV, "        loss_i = self._river_metric.get()\n        self._river_metric.revert(y_true=y_true, y_pred=y_prediction)\n", "        self._river_metric.revert(y_true=y_true, y_pred=y_prediction)\n        loss_i = self._river_metric.get()\n"))
M('C13', 'clone-instead-of-revert', (RIV, """        _ = self._river_metric.update(y_true=y_true, y_pred=y_prediction)
        loss_i = self._river_metric.get()
        self._river_metric.revert(y_true=y_true, y_pred=y_prediction)
""", """        import copy as _c
        _m = _c.deepcopy(self._river_metric)
        _ = _m.update(y_true=y_true, y_pred=y_prediction)
        loss_i = _m.get()
"""), kind='equivalent')

# ---- C14 ---------------------------------------------------------------------------------------
WB = 'ixai/utils/wrappers/base.py'
WSK = 'ixai/utils/wrappers/sklearn.py'
WTO = 'ixai/utils/wrappers/torch.py'
VMOD = 'ixai/utils/validators/model.py'
M('C14', 'revert-fix-size-one', (WB, "            if np.size(y_prediction) == 1:  # float() only converts 0-dimensional arrays on recent NumPy versions\n                y_prediction = np.reshape(y_prediction, ())\n", ""))
M('C14', 'feature-names-ignored-1d', (WB, "        if self._feature_names is not None:\n            x_dict = {feature: x_dict[feature] for feature in self._feature_names}\n", ""))
M('C14', 'feature-names-sorted-2d', (WB, "                x_input_i = [x_dicts[i][feature] for feature in self._feature_names]", "                x_input_i = [x_dicts[i][feature] for feature in sorted(self._feature_names, key=str)]"))
M('C14', 'only-first-batch-row-converted', (WSK, "y_prediction = [self.convert_arr_output_to_dict(y_predictions[i]) for i in range(len(y_predictions))]", "y_prediction = [self.convert_arr_output_to_dict(y_predictions[0]) for i in range(len(y_predictions))]"))
M('C14', 'torch-batch-reversed', (WTO, "        y_prediction = [self.convert_arr_output_to_dict(y_predictions[i]) for i in range(len(y_predictions))]\n        return y_prediction", "        y_prediction = [self.convert_arr_output_to_dict(y_predictions[i]) for i in range(len(y_predictions))]\n        return y_prediction[::-1]"))
M('C14', 'one-hot-misses-earlier-labels', (RIV, "            output = {label: 0. for label in self._seen_labels}", "            output = {}"))
M('C14', 'river-seen-labels-shared', (RIV, "        self._seen_labels = set()", "        self._seen_labels = RiverWrapper.__dict__.setdefault('_shared', set()) if False else _SHARED"), (RIV, "class RiverWrapper(Wrapper):", "_SHARED = set()\n\n\nclass RiverWrapper(Wrapper):"))
M('C14', 'wrapper-rewrapped', (VMOD, "    if isinstance(model_function, Wrapper):\n        return model_function  # we assume the wrapper is applied correctly\n", "    if isinstance(model_function, RiverWrapper):\n        return RiverWrapper(model_function)\n    if isinstance(model_function, Wrapper):\n        return model_function\n"))
M('C14', 'vector-keys-as-strings', (WB, "y_prediction = {i: y_prediction[i] for i in range(y_prediction.shape[0])}", "y_prediction = {str(i): y_prediction[i] for i in range(y_prediction.shape[0])}"))
M('C14', 'river-numeric-int-truncation', (RIV, "            return {self.default_label: float(y_prediction)}\n        except ValueError:  # y_prediction is str", "            return {self.default_label: float(int(y_prediction))}\n        except ValueError:  # y_prediction is str"))
M('C14', 'asarray-size-check-refactor', (WB, "            if np.size(y_prediction) == 1:  # float() only converts 0-dimensional arrays on recent NumPy versions\n                y_prediction = np.reshape(y_prediction, ())\n            return {self.default_label: float(y_prediction)}",
   "            if np.size(y_prediction) == 1:\n                return {self.default_label: float(np.asarray(y_prediction).ravel()[0])}\n            raise TypeError"), kind='equivalent')

# ---- C18 ---------------------------------------------------------------------------------------
TS = 'ixai/storage/tree_storage.py'
TI = 'ixai/imputer/tree_imputer.py'
M('C18', 'revert-fix-default-tree-seed', (TS, "        if seed is None:\n            seed = random.randrange(2 ** 32)\n", ""))
M('C18', 'private-unseeded-rng-imputer', (MARG, "        rand_idx = random.randrange(len(features))\n        sampled_instance", "        rand_idx = _PRIVATE.randrange(len(features))\n        sampled_instance"),
  (MARG, "class MarginalImputer(BaseImputer):", "_PRIVATE = random.Random()\n\n\nclass MarginalImputer(BaseImputer):"))
M('C18', 'default-rng-permutation', (INC, "np.random.permutation(len(self.feature_names))]", "np.random.default_rng().permutation(len(self.feature_names))]"))
M('C18', 'time-derived-acceptance', (GEO, "            random_float = random.random()\n", "            import time as _t\n            random_float = random.Random(_t.time_ns()).random()\n"))
M('C18', 'id-ordered-product-draws', (MARG, "        for feature_name in feature_subset:\n            rand_idx = random.randrange(len(features))", "        for feature_name in sorted(feature_subset, key=id):\n            rand_idx = random.randrange(len(features))"))
M('C18', 'module-global-call-counter', (MARG, "        rand_idx = random.randrange(len(features))\n        sampled_instance", "        global _CALLS\n        _CALLS += 1\n        rand_idx = (random.randrange(len(features)) + _CALLS // 50) % len(features)\n        sampled_instance"),
  (MARG, "class MarginalImputer(BaseImputer):", "_CALLS = 0\n\n\nclass MarginalImputer(BaseImputer):"))
M('C18', 'tree-imputer-system-random', (TI, "            random_index = random.randint(0, len(x_storage) - 1)", "            random_index = random.SystemRandom().randint(0, len(x_storage) - 1)"))
M('C18', 'uniform-reservoir-numpy-default-rng', (UNI, "                rand_idx = random.randrange(self.size)", "                rand_idx = int(np.random.default_rng().integers(self.size))"))
M('C18', 'numpy-global-for-slot', (UNI, "                rand_idx = random.randrange(self.size)", "                rand_idx = int(np.random.randint(self.size))"), kind='equivalent')

# ---- C19 ---------------------------------------------------------------------------------------
M('C19', 'outdated-reservoirs-kept', (TS, "        self._delete_outdated_reservoirs(feature_name, root_node)\n        data_reservoir[leaf_id].update(x)", "        data_reservoir[leaf_id].update(x)"))
M('C19', 'reservoir-one-too-large', (TS, "size=self._leaf_reservoir_length, store_targets=False, constant_probability=1.0)", "size=self._leaf_reservoir_length + 1, store_targets=False, constant_probability=1.0)"))
M('C19', 'default-insertion-probability', (TS, "size=self._leaf_reservoir_length, store_targets=False, constant_probability=1.0)", "size=self._leaf_reservoir_length, store_targets=False)"))
M('C19', 'imputer-samples-other-leaf', (TI, "            storage = data_reservoir[leaf_id]\n", "            storage = data_reservoir[leaf_id]\n            storage = list(data_reservoir.values())[-1]\n"))
M('C19', 'imputer-changes-unrequested', (TI, "            for feature_name in feature_subset:\n                if self.use_storage:", "            for feature_name in (self.storage_object.feature_names if len(feature_subset) == 2 else feature_subset):\n                if self.use_storage:"))
M('C19', 'len-counts-features', (TS, "        self._seen_samples += 1\n", "            self._seen_samples += 1\n"))
M('C19', 'stores-point-without-target-feature', (TS, "        data_reservoir[leaf_id].update(x)", "        data_reservoir[leaf_id].update(x_i)"))
M('C19', 'deletes-only-on-every-third-update', (TS, "        self._delete_outdated_reservoirs(feature_name, root_node)\n        data_reservoir[leaf_id].update(x)", "        if self._seen_samples % 3 == 0:\n            self._delete_outdated_reservoirs(feature_name, root_node)\n        data_reservoir[leaf_id].update(x)"))
M('C19', 'imputer-cat-sample-unobserved', (TI, "        feature_value = random.choices(population=feature_values, weights=feature_weights, k=n_samples)[0]", "        feature_value = random.choices(population=feature_values, weights=feature_weights, k=n_samples)[0] + (0.5 if random.random() < 0.2 else 0)"))
M('C19', 'imputer-one-prediction-short', (TI, "        for _ in range(n_samples):\n            sampled_values = {}", "        for _ in range(max(n_samples - 1, 1)):\n            sampled_values = {}"))
M('C19', 'reservoir-stores-copy', (TS, "        data_reservoir[leaf_id].update(x)", "        data_reservoir[leaf_id].update(dict(x))"), kind='equivalent')

# ---- C20 ---------------------------------------------------------------------------------------
M('C20', 'naive-variance', (W, """        self.N += 1
        difference_1 = value_i - self.tracked_value
        self.tracked_value += difference_1 / self.N
        difference_2 = value_i - self.tracked_value
        self.sum_squares += difference_1 * difference_2
        return self
""", """        self.N += 1
        self._s1 = getattr(self, '_s1', 0) + value_i
        self._s2 = getattr(self, '_s2', 0) + value_i * value_i
        self.tracked_value = self._s1 / self.N
        self.sum_squares = self._s2 - self._s1 * self._s1 / self.N
        return self
"""))
M('C20', 'float32-accumulation', (W, "        self.tracked_value += difference_1 / self.N\n", "        self.tracked_value += difference_1 / self.N\n        if isinstance(self.tracked_value, float):\n            import numpy as _np\n            self.tracked_value = float(_np.float32(self.tracked_value))\n"))
M('C20', 'smoothing-loses-offset', (ES, "self.tracked_value = (1 - self.alpha) * self.tracked_value + self.alpha * value_i", "self.tracked_value = (self.tracked_value * 1e6 * (1 - self.alpha) + self.alpha * value_i * 1e6) / 1e6 if not isinstance(value_i, float) else float((1 - self.alpha) * self.tracked_value + self.alpha * value_i + 1e9) - 1e9"))
M('C20', 'pfi-mean-in-float32', (PFI, "avg_loss = np.mean(losses)", "avg_loss = np.mean(losses) if not isinstance(losses[0], float) else float(np.mean(np.asarray(losses, dtype=np.float32)))"))
M('C20', 'sage-contribution-via-ratio', (INC, "                marginal_contribution = sample_loss - feature_loss", "                marginal_contribution = sample_loss - feature_loss if not isinstance(feature_loss, float) else (sample_loss / (feature_loss + 1e-300) - 1.0) * feature_loss"))
M('C20', 'welford-alt-stable-update', (W, "self.sum_squares += difference_1 * difference_2", "self.sum_squares += difference_1 * difference_1 * (self.N - 1) / self.N"), kind='equivalent')
M('C20', 'es-incremental-form', (ES, "self.tracked_value = (1 - self.alpha) * self.tracked_value + self.alpha * value_i", "self.tracked_value = self.tracked_value + self.alpha * (value_i - self.tracked_value)"), kind='equivalent')

# ---- float-only numpy functions applied to losses: equivalent for every explainer property -------------------------------------
for _p in ('C01', 'C03', 'C17', 'C20', 'C16', 'C04'):
    M(_p, 'sage-numpy-isfinite-on-loss', (INC, "            model_loss = self._loss_function(y_i, y_i_pred)\n", "            model_loss = self._loss_function(y_i, y_i_pred)\n            assert np.isfinite(model_loss)\n"), kind='equivalent')
for _p in ('C02', 'C17', 'C20', 'C04'):
    M(_p, 'pfi-numpy-isclose-on-loss', (PFI, "                pfi[feature] = avg_loss - original_loss\n", "                pfi[feature] = avg_loss - original_loss\n                _ = np.isclose(avg_loss, original_loss)\n"), kind='equivalent')
M('C05', 'batch-numpy-isfinite-on-loss', (BATCH, "            loss_previous = self._loss_function(y_i, marginal_prediction)\n            features_not_in_s", "            loss_previous = self._loss_function(y_i, marginal_prediction)\n            assert np.isfinite(loss_previous)\n            features_not_in_s"), kind='equivalent')
M('C19', 'revert-fix-delete-every-update', (TS, """                size=self._leaf_reservoir_length, store_targets=False, constant_probability=1.0)
        # the adaptive trees also prune / swap subtrees that are not on the path of the current point
        self._delete_outdated_reservoirs(feature_name, root_node)
""", """                size=self._leaf_reservoir_length, store_targets=False, constant_probability=1.0)
            self._delete_outdated_reservoirs(feature_name, root_node)
"""))
