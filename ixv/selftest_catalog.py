"""Mutants (must be detected) and equivalent refactors (must not alarm) for ixv.selftest."""

# (property, name, kind, [(file, old, new), ...])   kind: 'mutant' | 'equivalent'
CATALOG = []


def M(prop, name, *edits, kind='mutant'):
    CATALOG.append((prop, name, kind, list(edits)))


W = 'ixai/utils/tracker/welford.py'
ES = 'ixai/utils/tracker/exponential_smoothing.py'

# ---- C10 ---------------------------------------------------------------------------------------
M('C10', 'welford-second-diff-old-mean', (W, "difference_2 = value_i - self.tracked_value", "difference_2 = difference_1"))
M('C10', 'welford-sample-variance', (W, "return self.sum_squares / max(self.N, 1)", "return self.sum_squares / max(self.N - 1, 1)"))
M('C10', 'es-swapped-weights', (ES, "(1 - self.alpha) * self.tracked_value + self.alpha * value_i",
                                "self.alpha * self.tracked_value + (1 - self.alpha) * value_i"))
M('C10', 'es-N-not-incremented', (ES, "        self.N += 1\n", "        pass\n"))
M('C10', 'welford-abs-only', (W, "self.sum_squares += difference_1 * difference_2", "self.sum_squares += abs(difference_1) * abs(difference_2) if value_i >= 0 else difference_1 * difference_1"))
M('C10', 'es-incremental-form', (ES, "self.tracked_value = (1 - self.alpha) * self.tracked_value + self.alpha * value_i",
                                 "self.tracked_value = self.tracked_value + self.alpha * (value_i - self.tracked_value)"), kind='equivalent')
M('C10', 'welford-alt-update', (W, "self.sum_squares += difference_1 * difference_2",
                                "self.sum_squares += difference_1 * difference_1 * (self.N - 1) / self.N"), kind='equivalent')


